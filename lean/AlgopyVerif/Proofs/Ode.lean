import AlgopyVerif.Proofs.Faa
/-!
# `_taylor_polynomials_of_ode_solutions` and `_dawsn`

`b(u) v'(u) - a(u) v(u) = c(u)`: with `V = v ∘ U` the chain rule gives `B · V' = (C + A · V) · U'`
for the composed germs.  The dynamic program computes the jet of `V`.
-/
open Polynomial Filter Topology
open scoped ContDiff

namespace AV

/-- the loop body of `odeS` as a named function -/
noncomputable def odeStep (a b c u : List ℝ) (v0 : ℝ) (st : List ℝ × List ℝ × List ℝ) (k : ℕ) : List ℝ × List ℝ × List ℝ :=
  let D := u.length
  let ut : Nat → ℝ := fun j => if j = 0 then co u 0 else co u j * nat j
  let (e, vt, v) := st
  let (vt, v) :=
    if k = 0 then (vt ++ [v0], v ++ [v0]) else
      let s1 := sumRange 1 (k+1) fun j => (co c (k-j) + co e (k-j)) * ut j
      let s2 := sumRange 1 k fun j => co b (k-j) * co vt j
      let vtk := (s1 - s2) / co b 0
      (vt ++ [vtk], v ++ [vtk / nat k])
  let ek : ℝ := if k < D-1 then sumRange 0 (k+1) fun j => co a j * co v (k-j) else 0
  (e ++ [ek], vt, v)

theorem odeS_eq (a b c u : List ℝ) (v0 : ℝ) :
    odeS a b c u v0 = ((List.range u.length).foldl (odeStep a b c u v0) ([], [], [])).2.2 := rfl

/-- the new scaled coefficient `ṽ_k` -/
noncomputable def odeVt (b c u e vt : List ℝ) (v0 : ℝ) (k : ℕ) : ℝ :=
  if k = 0 then v0 else
    ((sumRange 1 (k+1) fun j => (co c (k-j) + co e (k-j)) * (if j = 0 then co u 0 else co u j * nat j))
      - (sumRange 1 k fun j => co b (k-j) * co vt j)) / co b 0

/-- the new coefficient `v_k` -/
noncomputable def odeV (b c u e vt : List ℝ) (v0 : ℝ) (k : ℕ) : ℝ :=
  if k = 0 then v0 else odeVt b c u e vt v0 k / nat k

/-- the loop body with the tuple pattern matches resolved -/
noncomputable def odeStep' (a b c u : List ℝ) (v0 : ℝ) (st : List ℝ × List ℝ × List ℝ) (k : ℕ) :
    List ℝ × List ℝ × List ℝ :=
  (st.1 ++ [if k < u.length - 1 then
      sumRange 0 (k+1) fun j => co a j * co (st.2.2 ++ [odeV b c u st.1 st.2.1 v0 k]) (k-j) else 0],
   st.2.1 ++ [odeVt b c u st.1 st.2.1 v0 k],
   st.2.2 ++ [odeV b c u st.1 st.2.1 v0 k])

theorem odeStep_eq (a b c u : List ℝ) (v0 : ℝ) : odeStep a b c u v0 = odeStep' a b c u v0 := by
  funext st k
  obtain ⟨e, vt, v⟩ := st
  by_cases hk : k = 0
  · subst hk; simp [odeStep, odeStep', odeVt, odeV]
  · simp only [odeStep, odeStep', odeVt, odeV, if_neg hk]

theorem co_append_lt (l : List ℝ) (x : ℝ) (j : ℕ) (h : j < l.length) : co (l ++ [x]) j = co l j := by
  unfold co; rw [List.getD_append _ _ _ _ h]
theorem co_append_eq (l : List ℝ) (x : ℝ) : co (l ++ [x]) l.length = x := by
  unfold co; rw [List.getD_append_right _ _ _ _ (le_refl _)]; simp

theorem co_append_eq' (l : List ℝ) (x : ℝ) (j : ℕ) (h : l.length = j) : co (l ++ [x]) j = x := by
  subst h; exact co_append_eq l x

/-- state after `k` iterations -/
structure OdeInv (u : List ℝ) (A V : ℝ → ℝ) (k : ℕ) (st : List ℝ × List ℝ × List ℝ) : Prop where
  le : st.1.length = k
  lvt : st.2.1.length = k
  lv : st.2.2.length = k
  v : ∀ j, j < k → co st.2.2 j = tc V j
  vt : ∀ j, j < k → co st.2.1 j = (j : ℝ) * tc V j ∨ j = 0
  e : ∀ j, j < k → j < u.length - 1 → co st.1 j = tc (A * V) j

theorem ode_step_inv {a b c u : List ℝ} {A B C U V : ℝ → ℝ}
    (ha : JetOf a A) (hb : JetOf b B) (hc : JetOf c C) (hu : JetOf u U)
    (hla : a.length = u.length) (hlb : b.length = u.length) (hlc : c.length = u.length)
    (hV : Smooth0 V) (hB0 : B 0 ≠ 0)
    (hode : B * deriv V =ᶠ[𝓝 0] (C + A * V) * deriv U)
    (k : ℕ) (hk : k < u.length) (st : List ℝ × List ℝ × List ℝ) (h : OdeInv u A V k st) :
    OdeInv u A V (k + 1) (odeStep a b c u (V 0) st k) := by
  obtain ⟨e, vt, v⟩ := st
  have hle := h.le; have hlvt := h.lvt; have hlv := h.lv
  simp only at hle hlvt hlv
  -- the new coefficient of V
  have hnew : (if k = 0 then V 0 else
      ((sumRange 1 (k+1) fun j => (co c (k-j) + co e (k-j)) * (if j = 0 then co u 0 else co u j * nat j))
        - (sumRange 1 k fun j => co b (k-j) * co vt j)) / co b 0 / nat k) = tc V k := by
    by_cases hk0 : k = 0
    · subst hk0; simp [tc_zero]
    · rw [if_neg hk0]
      obtain ⟨m, rfl⟩ : ∃ m, k = m + 1 := ⟨k - 1, by omega⟩
      have hne : ((m + 1 : ℕ) : ℝ) ≠ 0 := by exact_mod_cast Nat.succ_ne_zero m
      have hb0 : co b 0 ≠ 0 := by rw [hb.zero (by omega)]; exact hB0
      have hE := tc_congr hode m
      have hsCAV : Smooth0 (C + A * V) := hc.smooth.add (ha.smooth.mul hV)
      rw [tc_mul_at hb.smooth hV.deriv, tc_mul_at hsCAV hu.smooth.deriv] at hE
      -- left: Σ_{i≤m} B_i (m-i+1) V_{m-i+1}; right: Σ_{i≤m} (C+AV)_i (m-i+1) U_{m-i+1}
      rw [sumRange_eq, sumRange_eq]
      simp only [Nat.add_sub_cancel, nat_eq]
      have hR : ∑ i ∈ Finset.range (m + 1), (co c (m + 1 - (1 + i)) + co e (m + 1 - (1 + i))) *
            (if 1 + i = 0 then co u 0 else co u (1 + i) * ((1 + i : ℕ) : ℝ))
          = ∑ i ∈ Finset.range (m + 1), tc (C + A * V) i * tc (deriv U) (m - i) := by
        rw [← Finset.sum_range_reflect]
        apply Finset.sum_congr rfl
        intro i hi
        have hi' := Finset.mem_range.mp hi
        have e1 : m + 1 - (1 + (m + 1 - 1 - i)) = i := by omega
        have e2 : 1 + (m + 1 - 1 - i) = m - i + 1 := by omega
        have hsAV : Smooth0 (A * V) := ha.smooth.mul hV
        rw [e1, e2, if_neg (by omega), tc_deriv, tc_add C (A * V) hc.smooth hsAV,
          hc.coeff i (by omega), h.e i (by omega) (by omega), hu.coeff (m - i + 1) (by omega)]
        ring
      have hLs : ∑ i ∈ Finset.range (m + 1), tc B i * tc (deriv V) (m - i)
          = co b 0 * (((m + 1 : ℕ) : ℝ) * tc V (m + 1))
            + ∑ i ∈ Finset.range m, co b (m + 1 - (1 + i)) * co vt (1 + i) := by
        rw [Finset.sum_range_succ', Nat.sub_zero, tc_deriv, hb.coeff 0 (by omega), add_comm]
        congr 1
        rw [← Finset.sum_range_reflect (fun i => co b (m + 1 - (1 + i)) * co vt (1 + i)) m]
        apply Finset.sum_congr rfl
        intro i hi
        have hi' := Finset.mem_range.mp hi
        have e1 : m + 1 - (1 + (m - 1 - i)) = i + 1 := by omega
        have e2 : 1 + (m - 1 - i) = m - i := by omega
        have e3 : m - (i + 1) = m - i - 1 := by omega
        rw [e1, e2, hb.coeff (i + 1) (by omega)]
        rcases h.vt (m - i) (by omega) with hv | hv
        · rw [hv, e3, tc_deriv]
          have : m - i - 1 + 1 = m - i := by omega
          rw [this]
        · omega
      rw [hR, ← hE, hLs]
      field_simp
      ring
  -- assemble
  have hvk : odeV b c u e vt (V 0) k = tc V k := by
    unfold odeV odeVt
    by_cases hk0 : k = 0
    · rw [if_pos hk0]; rw [if_pos hk0] at hnew; exact hnew
    · rw [if_neg hk0, if_neg hk0]; rw [if_neg hk0] at hnew; exact hnew
  rw [odeStep_eq]
  unfold odeStep'
  simp only
  rw [hvk]
  refine ⟨by simp [hle], by simp [hlvt], by simp [hlv], ?_, ?_, ?_⟩
  · intro j hj
    simp only
    by_cases hjk : j < k
    · rw [co_append_lt _ _ _ (by omega)]; exact h.v j hjk
    · have : j = k := by omega
      subst this
      rw [co_append_eq' _ _ _ hlv]
  · intro j hj
    simp only
    by_cases hjk : j < k
    · rw [co_append_lt _ _ _ (by omega)]; exact h.vt j hjk
    · have : j = k := by omega
      subst this
      by_cases hk0 : j = 0
      · exact Or.inr hk0
      · left
        rw [co_append_eq' _ _ _ hlvt]
        have hvk' := hvk
        unfold odeV at hvk'
        rw [if_neg hk0] at hvk'
        have hne : ((j : ℕ) : ℝ) ≠ 0 := by exact_mod_cast hk0
        rw [← hvk', nat_eq]
        field_simp
  · intro j hj hjD
    simp only
    by_cases hjk : j < k
    · rw [co_append_lt _ _ _ (by omega)]; exact h.e j hjk hjD
    · have : j = k := by omega
      subst this
      rw [co_append_eq' _ _ _ hle, if_pos hjD, sumRange_eq, tc_mul_at ha.smooth hV]
      simp only [Nat.sub_zero, Nat.zero_add]
      apply Finset.sum_congr rfl
      intro i hi
      have hi' := Finset.mem_range.mp hi
      rw [ha.coeff i (by omega)]
      congr 1
      by_cases hij : j - i < j
      · rw [co_append_lt _ _ _ (by omega)]; exact h.v (j - i) hij
      · have : j - i = j := by omega
        rw [this, ← hlv, co_append_eq]

theorem ode_jet {a b c u : List ℝ} {A B C U V : ℝ → ℝ}
    (ha : JetOf a A) (hb : JetOf b B) (hc : JetOf c C) (hu : JetOf u U)
    (hla : a.length = u.length) (hlb : b.length = u.length) (hlc : c.length = u.length)
    (hV : Smooth0 V) (hB0 : B 0 ≠ 0)
    (hode : B * deriv V =ᶠ[𝓝 0] (C + A * V) * deriv U) :
    JetOf (odeS a b c u (V 0)) V := by
  have hall : ∀ k, k ≤ u.length →
      OdeInv u A V k ((List.range k).foldl (odeStep a b c u (V 0)) ([], [], [])) := by
    intro k
    induction k with
    | zero => intro _; exact ⟨rfl, rfl, rfl, fun j hj => by omega, fun j hj => by omega, fun j hj => by omega⟩
    | succ k ih =>
      intro hk
      rw [List.range_succ, List.foldl_append]
      exact ode_step_inv ha hb hc hu hla hlb hlc hV hB0 hode k (by omega) _ (ih (by omega))
  have hfin := hall u.length (le_refl _)
  rw [odeS_eq]
  exact ⟨hV, fun j hj => hfin.v j (by rw [hfin.lv] at hj; exact hj)⟩

/-- `_dawsn`: for any smooth `F` with `F'(y) = 1 - 2 y F(y)` (Dawson's integral; the leaf is `F(x₀)`) -/
theorem dawsn_jet {x : List ℝ} {X : ℝ → ℝ} (hx : JetOf x X) (F : ℝ → ℝ)
    (hF : ∀ y, HasDerivAt F (1 - 2 * y * F y) y) (hFs : ContDiffAt ℝ ∞ F (X 0)) :
    JetOf (dawsnS (F (X 0)) x) (fun t => F (X t)) := by
  have hA : JetOf (scaleS (-(nat 2 : ℝ)) x) (fun t => -(nat 2 : ℝ) * X t) := hx.scale _
  have hone : JetOf (constS 1 x.length) (fun _ => (1:ℝ)) := jetOf_const 1 _
  have hV : Smooth0 (fun t => F (X t)) := smooth0_comp hx.smooth hFs
  have hode : (fun _ => (1:ℝ)) * deriv (fun t => F (X t))
      =ᶠ[𝓝 0] ((fun _ => (1:ℝ)) + (fun t => -(nat 2 : ℝ) * X t) * fun t => F (X t)) * deriv X := by
    filter_upwards [eventually_differentiableAt_comp hx.smooth (contDiffAt_id (x := X 0))] with t ht
    have := (hF (X t)).comp t ht.2.hasDerivAt
    have h2 : deriv (fun t => F (X t)) t = (1 - 2 * X t * F (X t)) * deriv X t := this.deriv
    simp only [Pi.mul_apply, Pi.add_apply, h2, nat_eq]
    push_cast
    ring
  have := ode_jet hA hone hone hx (by simp [scaleS]) (by simp [constS]) (by simp [constS]) hV one_ne_zero hode
  simpa [dawsnS] using this

theorem odeS_length (a b c u : List ℝ) (v0 : ℝ) : (odeS a b c u v0).length = u.length := by
  rw [odeS_eq, odeStep_eq]
  have : ∀ k, ((List.range k).foldl (odeStep' a b c u v0) ([], [], [])).2.2.length = k := by
    intro k
    induction k with
    | zero => rfl
    | succ k ih =>
      rw [List.range_succ, List.foldl_append]
      simp only [List.foldl_cons, List.foldl_nil, odeStep', List.length_append, List.length_singleton, ih]
  exact this u.length

/-! ### `botched_clip` away from the kinks -/
theorem clip_jet_inside {x : List ℝ} {X : ℝ → ℝ} (hx : JetOf x X) (lo hi : ℝ) (h1 : lo < X 0) (h2 : X 0 < hi) :
    JetOf (clipS (X 0) 1 x) (fun t => max lo (min (X t) hi)) := by
  have hev : (fun t => max lo (min (X t) hi)) =ᶠ[𝓝 0] X := by
    filter_upwards [hx.smooth.continuousAt.eventually (lt_mem_nhds h1),
      hx.smooth.continuousAt.eventually (gt_mem_nhds h2)] with t ha hb
    rw [min_eq_left hb.le, max_eq_right ha.le]
  have hj := hx.congr hev
  refine ⟨hj.smooth, fun k hk => ?_⟩
  have hk' : k < x.length := by simpa [clipS] using hk
  rw [← hj.coeff k hk']
  unfold clipS
  rw [co_map_range _ _ _ hk']
  by_cases hk0 : k = 0
  · subst hk0; simp [hx.zero hk']
  · simp [hk0]

theorem clip_jet_below {x : List ℝ} {X : ℝ → ℝ} (hx : JetOf x X) (lo hi : ℝ) (hlh : lo ≤ hi) (h1 : X 0 < lo) :
    JetOf (clipS lo 0 x) (fun t => max lo (min (X t) hi)) := by
  have hev : (fun t => max lo (min (X t) hi)) =ᶠ[𝓝 0] fun _ => lo := by
    filter_upwards [hx.smooth.continuousAt.eventually (gt_mem_nhds h1)] with t ha
    have : min (X t) hi ≤ lo := le_trans (min_le_left _ _) ha.le
    exact max_eq_left this
  have hj := (jetOf_const lo x.length).congr hev
  refine ⟨hj.smooth, fun k hk => ?_⟩
  have hk' : k < x.length := by simpa [clipS] using hk
  rw [← hj.coeff k (by simpa [constS] using hk')]
  unfold clipS constS
  rw [co_map_range _ _ _ hk', co_map_range _ _ _ hk']
  by_cases hk0 : k = 0 <;> simp [hk0]

theorem clip_jet_above {x : List ℝ} {X : ℝ → ℝ} (hx : JetOf x X) (lo hi : ℝ) (hlh : lo ≤ hi) (h2 : hi < X 0) :
    JetOf (clipS hi 0 x) (fun t => max lo (min (X t) hi)) := by
  have hev : (fun t => max lo (min (X t) hi)) =ᶠ[𝓝 0] fun _ => hi := by
    filter_upwards [hx.smooth.continuousAt.eventually (lt_mem_nhds h2)] with t ha
    rw [min_eq_right ha.le, max_eq_right hlh]
  have hj := (jetOf_const hi x.length).congr hev
  refine ⟨hj.smooth, fun k hk => ?_⟩
  have hk' : k < x.length := by simpa [clipS] using hk
  rw [← hj.coeff k (by simpa [constS] using hk')]
  unfold clipS constS
  rw [co_map_range _ _ _ hk', co_map_range _ _ _ hk']
  by_cases hk0 : k = 0 <;> simp [hk0]

end AV
