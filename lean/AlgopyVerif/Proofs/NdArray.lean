import AlgopyVerif.Model.NdArray
import AlgopyVerif.Model.Utpm
import AlgopyVerif.Proofs.Build
import Mathlib.Tactic.Ring
import Mathlib.Tactic.Linarith
/-!
# Index algebra of the mini-NumPy: `ravel`/`unravel` are mutually inverse on valid
indices, `get (ofFn f) = f`, and the series-level view of a UTPM array.
-/
namespace AV
open NdArray

/-- `idx` is a valid multi-index of `shape` -/
def ValidIdx : List Nat → List Nat → Prop
  | [], [] => True
  | n :: ns, i :: is => i < n ∧ ValidIdx ns is
  | _, _ => False

theorem prodN_cons (n : Nat) (ns : List Nat) : prodN (n :: ns) = n * prodN ns := by
  unfold prodN
  simp only [List.foldl_cons, Nat.one_mul]
  have key : ∀ (l : List Nat) (a : Nat), l.foldl (· * ·) a = a * l.foldl (· * ·) 1 := by
    intro l
    induction l with
    | nil => intro a; simp
    | cons x xs ih => intro a; simp only [List.foldl_cons, Nat.one_mul]; rw [ih (a * x), ih x]; ring
  exact key ns n

theorem numel_nil : numel [] = 1 := rfl
theorem numel_cons (n : Nat) (ns : List Nat) : numel (n :: ns) = n * numel ns := prodN_cons n ns

theorem ravel_lt : ∀ (s idx : List Nat), ValidIdx s idx → ravel s idx < numel s
  | [], [], _ => by simp [ravel, numel_nil]
  | n :: ns, i :: is, h => by
    obtain ⟨hi, hr⟩ := h
    have ih := ravel_lt ns is hr
    simp only [ravel, numel_cons]
    calc i * numel ns + ravel ns is < i * numel ns + numel ns := by omega
      _ = (i + 1) * numel ns := by ring
      _ ≤ n * numel ns := Nat.mul_le_mul_right _ hi
  | [], _ :: _, h => by simp [ValidIdx] at h
  | _ :: _, [], h => by simp [ValidIdx] at h

theorem unravel_ravel : ∀ (s idx : List Nat), ValidIdx s idx → unravel s (ravel s idx) = idx
  | [], [], _ => rfl
  | n :: ns, i :: is, h => by
    obtain ⟨_, hr⟩ := h
    have hlt := ravel_lt ns is hr
    have hpos : 0 < numel ns := by omega
    simp only [ravel, unravel]
    rw [Nat.mul_comm i, Nat.mul_add_div hpos, Nat.div_eq_of_lt hlt, Nat.add_zero,
      Nat.mul_add_mod, Nat.mod_eq_of_lt hlt, unravel_ravel ns is hr]
  | [], _ :: _, h => by simp [ValidIdx] at h
  | _ :: _, [], h => by simp [ValidIdx] at h

theorem unravel_valid : ∀ (s : List Nat) (k : Nat), k < numel s → ValidIdx s (unravel s k)
  | [], _, _ => by simp [unravel, ValidIdx]
  | n :: ns, k, h => by
    rw [numel_cons] at h
    have hpos : 0 < numel ns := by
      rcases Nat.eq_zero_or_pos (numel ns) with h0 | h0
      · rw [h0] at h; omega
      · exact h0
    simp only [unravel, ValidIdx]
    refine ⟨?_, unravel_valid ns _ (Nat.mod_lt _ hpos)⟩
    exact Nat.div_lt_of_lt_mul (by rw [Nat.mul_comm]; exact h)

theorem ravel_unravel : ∀ (s : List Nat) (k : Nat), k < numel s → ravel s (unravel s k) = k
  | [], k, h => by simp [numel_nil] at h; simp [unravel, ravel, h]
  | n :: ns, k, h => by
    rw [numel_cons] at h
    have hpos : 0 < numel ns := by
      rcases Nat.eq_zero_or_pos (numel ns) with h0 | h0
      · rw [h0] at h; omega
      · exact h0
    simp only [unravel, ravel]
    rw [ravel_unravel ns _ (Nat.mod_lt _ hpos)]
    exact Nat.div_add_mod' k (numel ns)

theorem get_ofFn {α} [Inhabited α] (s : List Nat) (f : List Nat → α) (idx : List Nat) (h : ValidIdx s idx) :
    (ofFn s f).get idx = f idx := by
  unfold NdArray.get ofFn
  simp only
  have hlt := ravel_lt s idx h
  rw [Array.getD_eq_getD_getElem?]
  simp [hlt, unravel_ravel s idx h]

/-! ## UTPM arrays as families of series -/
section
variable {K : Type} [Field K]
attribute [local instance] inh0

theorem validIdx_cons2 (D P : Nat) (s idx : List Nat) (d p : Nat) (hd : d < D) (hp : p < P)
    (h : ValidIdx s idx) : ValidIdx (D :: P :: s) (d :: p :: idx) := ⟨hd, hp, h⟩

/-- the series at `(p, idx)` of `ofSeries D P s f` is `f p idx` (read to length `D`) -/
theorem seriesAt_ofSeries (D P : Nat) (s : List Nat) (f : Nat → List Nat → List K) (p : Nat) (idx : List Nat)
    (hp : p < P) (h : ValidIdx s idx) :
    seriesAt (ofSeries D P s f) p idx = (List.range D).map fun d => co (f p idx) d := by
  unfold seriesAt
  have hD : utD (ofSeries D P s f) = D := by simp [utD, ofSeries, ofFn]
  rw [hD]
  apply List.map_congr_left
  intro d hd
  have hd' := List.mem_range.mp hd
  unfold ofSeries
  simp only
  rw [get_ofFn _ _ _ (validIdx_cons2 D P s idx d p hd' hp h)]
  simp only
  have hlt := ravel_lt s idx h
  have hk : p * numel s + ravel s idx < P * numel s := by
    calc p * numel s + ravel s idx < p * numel s + numel s := by omega
      _ = (p + 1) * numel s := by ring
      _ ≤ P * numel s := Nat.mul_le_mul_right _ hp
  have hpos : 0 < numel s := by omega
  rw [Array.getD_eq_getD_getElem?]
  simp only [Array.size_map, Array.size_range, hk, Array.getElem?_map, Array.getElem?_range,
    Option.map_some, Option.getD_some, if_true]
  rw [Nat.mul_comm p, Nat.mul_add_div hpos, Nat.div_eq_of_lt hlt, Nat.add_zero, Nat.mul_add_mod,
    Nat.mod_eq_of_lt hlt, unravel_ravel s idx h]

theorem range_map_co (x : List K) : (List.range x.length).map (fun d => co x d) = x := by
  apply List.ext_getElem (by simp)
  intro i h1 h2
  simp [co, List.getElem?_eq_getElem h2]

end
end AV
