import AlgopyVerif.Proofs.Recurrence
/-!
# Coefficient characterisation of the remaining coupled recurrences
(`_sinhcosh`, `_tansec2`, `_tanhsech2`, `_arctan`) and of `_pow_real`.
-/
namespace AV
open Finset
section
variable {K : Type} [Field K] [CharZero K]

/-! ### sinh / cosh -/
theorem sinhcoshS_zero (s0 c0 : K) (x : List K) (h : 0 < x.length) :
    co (sinhcoshS s0 c0 x).1 0 = s0 ∧ co (sinhcoshS s0 c0 x).2 0 = c0 := by
  unfold sinhcoshS
  rw [co_unzip_fst, co_unzip_snd, build_getD _ _ _ h]
  simp [build, sinhcoshStep]

theorem sinhcoshS_succ (s0 c0 : K) (x : List K) (d : Nat) (h : d + 1 < x.length) :
    ((d + 1 : Nat) : K) * co (sinhcoshS s0 c0 x).1 (d+1)
        = ∑ i ∈ range (d+1), ((1 + i : Nat) : K) * co x (1+i) * co (sinhcoshS s0 c0 x).2 (d - i)
    ∧ ((d + 1 : Nat) : K) * co (sinhcoshS s0 c0 x).2 (d+1)
        = ∑ i ∈ range (d+1), ((1 + i : Nat) : K) * co x (1+i) * co (sinhcoshS s0 c0 x).1 (d - i) := by
  have hne : ((d + 1 : Nat) : K) ≠ 0 := by exact_mod_cast Nat.succ_ne_zero d
  unfold sinhcoshS
  simp only [co_unzip_fst, co_unzip_snd]
  rw [build_getD _ _ _ h, sinhcoshStep]
  simp only [build_length, Nat.succ_ne_zero, if_false]
  rw [sumRange_eq, sumRange_eq, nat_eq, mul_div_cancel₀ _ hne, mul_div_cancel₀ _ hne]
  simp only [Nat.add_sub_cancel]
  constructor <;>
  · apply sum_congr rfl
    intro i hi
    have hi' := mem_range.mp hi
    rw [build_getD_prefix _ x.length (d+1) (d+1-(1+i)) (by omega) (by omega), nat_eq]
    have : d + 1 - (1 + i) = d - i := by omega
    rw [this]

/-! ### tan / sec² : `y' = x' z`, `z' = 2 y y'` -/
theorem tansec2S_zero (y0 z0 : K) (x : List K) (h : 0 < x.length) :
    co (tansec2S y0 z0 x).1 0 = y0 ∧ co (tansec2S y0 z0 x).2 0 = z0 := by
  unfold tansec2S
  rw [co_unzip_fst, co_unzip_snd, build_getD _ _ _ h]
  simp [build, tansec2Step]

theorem tansec2S_succ_y (y0 z0 : K) (x : List K) (d : Nat) (h : d + 1 < x.length) :
    ((d + 1 : Nat) : K) * co (tansec2S y0 z0 x).1 (d+1)
        = ∑ i ∈ range (d+1), ((1 + i : Nat) : K) * co x (1+i) * co (tansec2S y0 z0 x).2 (d - i) := by
  have hne : ((d + 1 : Nat) : K) ≠ 0 := by exact_mod_cast Nat.succ_ne_zero d
  unfold tansec2S
  simp only [co_unzip_fst, co_unzip_snd]
  rw [build_getD _ _ _ h, tansec2Step]
  simp only [build_length, Nat.succ_ne_zero, if_false]
  rw [sumRange_eq, nat_eq, mul_div_cancel₀ _ hne]
  simp only [Nat.add_sub_cancel]
  apply sum_congr rfl
  intro i hi
  have hi' := mem_range.mp hi
  rw [build_getD_prefix _ x.length (d+1) (d+1-(1+i)) (by omega) (by omega), nat_eq]
  have : d + 1 - (1 + i) = d - i := by omega
  rw [this]

/-- `z_{d+1}` uses the freshly computed `y_{d+1}`: in terms of the final lists,
`(d+1) z_{d+1} = 2 Σ_{i≤d} (1+i) y_{1+i} y_{d-i}` -/
theorem tansec2S_succ_z (y0 z0 : K) (x : List K) (d : Nat) (h : d + 1 < x.length) :
    ((d + 1 : Nat) : K) * co (tansec2S y0 z0 x).2 (d+1)
        = 2 * ∑ i ∈ range (d+1), ((1 + i : Nat) : K) * co (tansec2S y0 z0 x).1 (1+i) * co (tansec2S y0 z0 x).1 (d - i) := by
  have hne : ((d + 1 : Nat) : K) ≠ 0 := by exact_mod_cast Nat.succ_ne_zero d
  -- the value of y_{d+1} as computed inside the step
  have hy : co (tansec2S y0 z0 x).1 (d+1)
      = (sumRange 1 (d+1+1) fun k => nat k * co x k * ((build (tansec2Step y0 z0 x) (d+1)).getD (d+1-k) (0,0)).2) / nat (d+1) := by
    unfold tansec2S
    rw [co_unzip_fst, build_getD _ _ _ h, tansec2Step]
    simp only [build_length, Nat.succ_ne_zero, if_false]
  unfold tansec2S at hy ⊢
  simp only [co_unzip_fst, co_unzip_snd] at hy ⊢
  rw [build_getD _ _ _ h, tansec2Step]
  simp only [build_length, Nat.succ_ne_zero, if_false]
  rw [sumRange_eq]
  simp only [nat_eq, Nat.add_sub_cancel] at hy ⊢
  rw [mul_div_cancel₀ _ hne]
  push_cast
  congr 1
  apply sum_congr rfl
  intro i hi
  have hi' := mem_range.mp hi
  have hne2 : ¬ (d + 1 - (1 + i) = d + 1) := by omega
  have hd : d + 1 - (1 + i) = d - i := by omega
  rw [if_neg hne2, build_getD_prefix _ x.length (d+1) (d+1-(1+i)) (by omega) (by omega), hd]
  by_cases hc : 1 + i = d + 1
  · rw [if_pos hc, hc, hy]
    push_cast
    ring
  · rw [if_neg hc, build_getD_prefix _ x.length (d+1) (1+i) (by omega) (by omega)]

end
end AV
