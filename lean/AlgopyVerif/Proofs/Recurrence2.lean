import AlgopyVerif.Proofs.Recurrence
/-!
# Coefficient characterisation of the remaining coupled recurrences
(`_sinhcosh`, `_tansec2`, `_tanhsech2`, `_arctan`) and of `_pow_real`.
-/
namespace AV
open Finset
section
variable {K : Type} [Field K] [CharZero K]

/-! ### sinh / cosh -/
theorem sinhcoshS_zero (s0 c0 : K) (x : List K) (h : 0 < x.length) :
    co (sinhcoshS s0 c0 x).1 0 = s0 ∧ co (sinhcoshS s0 c0 x).2 0 = c0 := by
  unfold sinhcoshS
  rw [co_unzip_fst, co_unzip_snd, build_getD _ _ _ h]
  simp [build, sinhcoshStep]

theorem sinhcoshS_succ (s0 c0 : K) (x : List K) (d : Nat) (h : d + 1 < x.length) :
    ((d + 1 : Nat) : K) * co (sinhcoshS s0 c0 x).1 (d+1)
        = ∑ i ∈ range (d+1), ((1 + i : Nat) : K) * co x (1+i) * co (sinhcoshS s0 c0 x).2 (d - i)
    ∧ ((d + 1 : Nat) : K) * co (sinhcoshS s0 c0 x).2 (d+1)
        = ∑ i ∈ range (d+1), ((1 + i : Nat) : K) * co x (1+i) * co (sinhcoshS s0 c0 x).1 (d - i) := by
  have hne : ((d + 1 : Nat) : K) ≠ 0 := by exact_mod_cast Nat.succ_ne_zero d
  unfold sinhcoshS
  simp only [co_unzip_fst, co_unzip_snd]
  rw [build_getD _ _ _ h, sinhcoshStep]
  simp only [build_length, Nat.succ_ne_zero, if_false]
  rw [sumRange_eq, sumRange_eq, nat_eq, mul_div_cancel₀ _ hne, mul_div_cancel₀ _ hne]
  simp only [Nat.add_sub_cancel]
  constructor <;>
  · apply sum_congr rfl
    intro i hi
    have hi' := mem_range.mp hi
    rw [build_getD_prefix _ x.length (d+1) (d+1-(1+i)) (by omega) (by omega), nat_eq]
    have : d + 1 - (1 + i) = d - i := by omega
    rw [this]

/-! ### tan / sec² : `y' = x' z`, `z' = 2 y y'` -/
theorem tansec2S_zero (y0 z0 : K) (x : List K) (h : 0 < x.length) :
    co (tansec2S y0 z0 x).1 0 = y0 ∧ co (tansec2S y0 z0 x).2 0 = z0 := by
  unfold tansec2S
  rw [co_unzip_fst, co_unzip_snd, build_getD _ _ _ h]
  simp [build, tansec2Step]

theorem tansec2S_succ_y (y0 z0 : K) (x : List K) (d : Nat) (h : d + 1 < x.length) :
    ((d + 1 : Nat) : K) * co (tansec2S y0 z0 x).1 (d+1)
        = ∑ i ∈ range (d+1), ((1 + i : Nat) : K) * co x (1+i) * co (tansec2S y0 z0 x).2 (d - i) := by
  have hne : ((d + 1 : Nat) : K) ≠ 0 := by exact_mod_cast Nat.succ_ne_zero d
  unfold tansec2S
  simp only [co_unzip_fst, co_unzip_snd]
  rw [build_getD _ _ _ h, tansec2Step]
  simp only [build_length, Nat.succ_ne_zero, if_false]
  rw [sumRange_eq, nat_eq, mul_div_cancel₀ _ hne]
  simp only [Nat.add_sub_cancel]
  apply sum_congr rfl
  intro i hi
  have hi' := mem_range.mp hi
  rw [build_getD_prefix _ x.length (d+1) (d+1-(1+i)) (by omega) (by omega), nat_eq]
  have : d + 1 - (1 + i) = d - i := by omega
  rw [this]

/-- `z_{d+1}` uses the freshly computed `y_{d+1}`: in terms of the final lists,
`(d+1) z_{d+1} = 2 Σ_{i≤d} (1+i) y_{1+i} y_{d-i}` -/
theorem tansec2S_succ_z (y0 z0 : K) (x : List K) (d : Nat) (h : d + 1 < x.length) :
    ((d + 1 : Nat) : K) * co (tansec2S y0 z0 x).2 (d+1)
        = 2 * ∑ i ∈ range (d+1), ((1 + i : Nat) : K) * co (tansec2S y0 z0 x).1 (1+i) * co (tansec2S y0 z0 x).1 (d - i) := by
  have hne : ((d + 1 : Nat) : K) ≠ 0 := by exact_mod_cast Nat.succ_ne_zero d
  -- the value of y_{d+1} as computed inside the step
  have hy : co (tansec2S y0 z0 x).1 (d+1)
      = (sumRange 1 (d+1+1) fun k => nat k * co x k * ((build (tansec2Step y0 z0 x) (d+1)).getD (d+1-k) (0,0)).2) / nat (d+1) := by
    unfold tansec2S
    rw [co_unzip_fst, build_getD _ _ _ h, tansec2Step]
    simp only [build_length, Nat.succ_ne_zero, if_false]
  unfold tansec2S at hy ⊢
  simp only [co_unzip_fst, co_unzip_snd] at hy ⊢
  rw [build_getD _ _ _ h, tansec2Step]
  simp only [build_length, Nat.succ_ne_zero, if_false]
  rw [sumRange_eq]
  simp only [nat_eq, Nat.add_sub_cancel] at hy ⊢
  rw [mul_div_cancel₀ _ hne]
  push_cast
  congr 1
  apply sum_congr rfl
  intro i hi
  have hi' := mem_range.mp hi
  have hne2 : ¬ (d + 1 - (1 + i) = d + 1) := by omega
  have hd : d + 1 - (1 + i) = d - i := by omega
  rw [if_neg hne2, build_getD_prefix _ x.length (d+1) (d+1-(1+i)) (by omega) (by omega), hd]
  by_cases hc : 1 + i = d + 1
  · rw [if_pos hc, hc, hy]
    push_cast
    ring
  · rw [if_neg hc, build_getD_prefix _ x.length (d+1) (1+i) (by omega) (by omega)]

/-! ### tanh / sech² : `y' = x' z`, `z' = -2 y y'` -/
theorem tanhsech2S_zero (y0 z0 : K) (x : List K) (h : 0 < x.length) :
    co (tanhsech2S y0 z0 x).1 0 = y0 ∧ co (tanhsech2S y0 z0 x).2 0 = z0 := by
  unfold tanhsech2S
  rw [co_unzip_fst, co_unzip_snd, build_getD _ _ _ h]
  simp [build, tanhsech2Step]

theorem tanhsech2S_succ_y (y0 z0 : K) (x : List K) (d : Nat) (h : d + 1 < x.length) :
    ((d + 1 : Nat) : K) * co (tanhsech2S y0 z0 x).1 (d+1)
        = ∑ i ∈ range (d+1), ((1 + i : Nat) : K) * co x (1+i) * co (tanhsech2S y0 z0 x).2 (d - i) := by
  have hne : ((d + 1 : Nat) : K) ≠ 0 := by exact_mod_cast Nat.succ_ne_zero d
  unfold tanhsech2S
  simp only [co_unzip_fst, co_unzip_snd]
  rw [build_getD _ _ _ h, tanhsech2Step]
  simp only [build_length, Nat.succ_ne_zero, if_false]
  rw [sumRange_eq, nat_eq, mul_div_cancel₀ _ hne]
  simp only [Nat.add_sub_cancel]
  apply sum_congr rfl
  intro i hi
  have hi' := mem_range.mp hi
  rw [build_getD_prefix _ x.length (d+1) (d+1-(1+i)) (by omega) (by omega), nat_eq]
  have : d + 1 - (1 + i) = d - i := by omega
  rw [this]

/-- `z_{d+1}` uses the freshly computed `y_{d+1}`: in terms of the final lists,
`(d+1) z_{d+1} = -2 Σ_{i≤d} (1+i) y_{1+i} y_{d-i}` -/
theorem tanhsech2S_succ_z (y0 z0 : K) (x : List K) (d : Nat) (h : d + 1 < x.length) :
    ((d + 1 : Nat) : K) * co (tanhsech2S y0 z0 x).2 (d+1)
        = -2 * ∑ i ∈ range (d+1), ((1 + i : Nat) : K) * co (tanhsech2S y0 z0 x).1 (1+i) * co (tanhsech2S y0 z0 x).1 (d - i) := by
  have hne : ((d + 1 : Nat) : K) ≠ 0 := by exact_mod_cast Nat.succ_ne_zero d
  -- the value of y_{d+1} as computed inside the step
  have hy : co (tanhsech2S y0 z0 x).1 (d+1)
      = (sumRange 1 (d+1+1) fun k => nat k * co x k * ((build (tanhsech2Step y0 z0 x) (d+1)).getD (d+1-k) (0,0)).2) / nat (d+1) := by
    unfold tanhsech2S
    rw [co_unzip_fst, build_getD _ _ _ h, tanhsech2Step]
    simp only [build_length, Nat.succ_ne_zero, if_false]
  unfold tanhsech2S at hy ⊢
  simp only [co_unzip_fst, co_unzip_snd] at hy ⊢
  rw [build_getD _ _ _ h, tanhsech2Step]
  simp only [build_length, Nat.succ_ne_zero, if_false]
  rw [sumRange_eq]
  simp only [nat_eq, Nat.add_sub_cancel] at hy ⊢
  rw [mul_div_cancel₀ _ hne]
  push_cast
  congr 1
  apply sum_congr rfl
  intro i hi
  have hi' := mem_range.mp hi
  have hne2 : ¬ (d + 1 - (1 + i) = d + 1) := by omega
  have hd : d + 1 - (1 + i) = d - i := by omega
  rw [if_neg hne2, build_getD_prefix _ x.length (d+1) (d+1-(1+i)) (by omega) (by omega), hd]
  by_cases hc : 1 + i = d + 1
  · rw [if_pos hc, hc, hy]
    push_cast
    ring
  · rw [if_neg hc, build_getD_prefix _ x.length (d+1) (1+i) (by omega) (by omega)]

/-! ### arctan : `y' z = x'`, `z = 1 + x²` -/
theorem arctanS_zero (y0 : K) (x : List K) (h : 0 < x.length) :
    co (arctanS y0 x).1 0 = y0 ∧ co (arctanS y0 x).2 0 = 1 + co x 0 * co x 0 := by
  unfold arctanS
  rw [co_unzip_fst, co_unzip_snd, build_getD _ _ _ h]
  simp [build, arctanStep]

theorem arctanS_succ_z (y0 : K) (x : List K) (d : Nat) (h : d + 1 < x.length) :
    ((d + 1 : Nat) : K) * co (arctanS y0 x).2 (d+1)
        = 2 * ∑ i ∈ range (d+1), ((1 + i : Nat) : K) * co x (1+i) * co x (d - i) := by
  have hne : ((d + 1 : Nat) : K) ≠ 0 := by exact_mod_cast Nat.succ_ne_zero d
  unfold arctanS
  simp only [co_unzip_snd]
  rw [build_getD _ _ _ h, arctanStep]
  simp only [build_length, Nat.succ_ne_zero, if_false]
  rw [sumRange_eq]
  simp only [nat_eq, Nat.add_sub_cancel]
  rw [mul_div_cancel₀ _ hne]
  push_cast
  congr 1
  apply sum_congr rfl
  intro i hi
  have hi' := mem_range.mp hi
  have hd : d + 1 - (1 + i) = d - i := by omega
  rw [hd]

theorem arctanS_succ_y (y0 : K) (x : List K) (hz : 1 + co x 0 * co x 0 ≠ 0) (d : Nat) (h : d + 1 < x.length) :
    (1 + co x 0 * co x 0) * (((d + 1 : Nat) : K) * co (arctanS y0 x).1 (d+1))
        = ((d + 1 : Nat) : K) * co x (d+1)
          - ∑ j ∈ range d, ((1 + j : Nat) : K) * co (arctanS y0 x).1 (1+j) * co (arctanS y0 x).2 (d - j) := by
  have hne : ((d + 1 : Nat) : K) ≠ 0 := by exact_mod_cast Nat.succ_ne_zero d
  have h0 : ((build (arctanStep y0 x) (d+1)).getD 0 (0,0)).2 = 1 + co x 0 * co x 0 := by
    rw [build_getD_prefix _ x.length (d+1) 0 (by omega) (by omega)]
    have := (arctanS_zero y0 x (by omega)).2
    unfold arctanS at this
    rwa [co_unzip_snd] at this
  unfold arctanS
  simp only [co_unzip_fst, co_unzip_snd]
  rw [build_getD _ _ _ h, arctanStep]
  simp only [build_length, Nat.succ_ne_zero, if_false]
  rw [h0, sumRange_eq]
  simp only [nat_eq, Nat.add_sub_cancel]
  have e : ∑ i ∈ range d, ((1 + i : Nat) : K) * ((build (arctanStep y0 x) (d+1)).getD (1 + i) (0,0)).1
        * ((build (arctanStep y0 x) (d+1)).getD (d + 1 - (1 + i)) (0,0)).2
      = ∑ j ∈ range d, ((1 + j : Nat) : K) * ((build (arctanStep y0 x) x.length).getD (1+j) (0,0)).1
        * ((build (arctanStep y0 x) x.length).getD (d - j) (0,0)).2 := by
    apply sum_congr rfl
    intro i hi
    have hi' := mem_range.mp hi
    have hd : d + 1 - (1 + i) = d - i := by omega
    rw [hd, build_getD_prefix _ x.length (d+1) (1+i) (by omega) (by omega),
      build_getD_prefix _ x.length (d+1) (d-i) (by omega) (by omega)]
  rw [e]
  have hz' : 1 + co x 0 ^ 2 ≠ 0 := by rwa [pow_two]
  field_simp

/-! ### arcsin / arccos : `y' z = x'`, `z' = -x y'` (they differ in the base values only) -/
theorem arcsinS_zero (y0 z0 : K) (x : List K) (h : 0 < x.length) :
    co (arcsinS y0 z0 x).1 0 = y0 ∧ co (arcsinS y0 z0 x).2 0 = z0 := by
  unfold arcsinS
  rw [co_unzip_fst, co_unzip_snd, build_getD _ _ _ h]
  simp [build, arcsinStep]

theorem arcsinS_succ_y (y0 z0 : K) (x : List K) (hz : z0 ≠ 0) (d : Nat) (h : d + 1 < x.length) :
    z0 * (((d + 1 : Nat) : K) * co (arcsinS y0 z0 x).1 (d+1))
        = ((d + 1 : Nat) : K) * co x (d+1)
          - ∑ j ∈ range d, ((1 + j : Nat) : K) * co (arcsinS y0 z0 x).1 (1+j) * co (arcsinS y0 z0 x).2 (d - j) := by
  have hne : ((d + 1 : Nat) : K) ≠ 0 := by exact_mod_cast Nat.succ_ne_zero d
  have h0 : ((build (arcsinStep y0 z0 x) (d+1)).getD 0 (0,0)).2 = z0 := by
    rw [build_getD_prefix _ x.length (d+1) 0 (by omega) (by omega)]
    have := (arcsinS_zero y0 z0 x (by omega)).2
    unfold arcsinS at this
    rwa [co_unzip_snd] at this
  unfold arcsinS
  simp only [co_unzip_fst, co_unzip_snd]
  rw [build_getD _ _ _ h, arcsinStep]
  simp only [build_length, Nat.succ_ne_zero, if_false]
  rw [h0, sumRange_eq]
  simp only [nat_eq, Nat.add_sub_cancel]
  have e : ∑ i ∈ range d, ((1 + i : Nat) : K) * ((build (arcsinStep y0 z0 x) (d+1)).getD (1 + i) (0,0)).1
        * ((build (arcsinStep y0 z0 x) (d+1)).getD (d + 1 - (1 + i)) (0,0)).2
      = ∑ j ∈ range d, ((1 + j : Nat) : K) * ((build (arcsinStep y0 z0 x) x.length).getD (1+j) (0,0)).1
        * ((build (arcsinStep y0 z0 x) x.length).getD (d - j) (0,0)).2 := by
    apply sum_congr rfl
    intro i hi
    have hi' := mem_range.mp hi
    have hd : d + 1 - (1 + i) = d - i := by omega
    rw [hd, build_getD_prefix _ x.length (d+1) (1+i) (by omega) (by omega),
      build_getD_prefix _ x.length (d+1) (d-i) (by omega) (by omega)]
  rw [e]
  field_simp

theorem arcsinS_succ_z (y0 z0 : K) (x : List K) (d : Nat) (h : d + 1 < x.length) :
    ((d + 1 : Nat) : K) * co (arcsinS y0 z0 x).2 (d+1)
        = - ∑ i ∈ range (d+1), ((1 + i : Nat) : K) * co (arcsinS y0 z0 x).1 (1+i) * co x (d - i) := by
  have hne : ((d + 1 : Nat) : K) ≠ 0 := by exact_mod_cast Nat.succ_ne_zero d
  -- the value of y_{d+1} as computed inside the step
  have hy : co (arcsinS y0 z0 x).1 (d+1) = (arcsinStep y0 z0 x (build (arcsinStep y0 z0 x) (d+1))).1 := by
    unfold arcsinS
    rw [co_unzip_fst, build_getD _ _ _ h]
  rw [arcsinStep] at hy
  simp only [build_length, Nat.succ_ne_zero, if_false] at hy
  unfold arcsinS at hy ⊢
  simp only [co_unzip_fst, co_unzip_snd] at hy ⊢
  rw [build_getD _ _ _ h, arcsinStep]
  simp only [build_length, Nat.succ_ne_zero, if_false]
  rw [sumRange_eq (lo := 1) (hi := d + 1 + 1)]
  simp only [nat_eq, Nat.add_sub_cancel] at hy ⊢
  rw [neg_div, mul_neg, mul_div_cancel₀ _ hne]
  congr 1
  apply sum_congr rfl
  intro i hi
  have hi' := mem_range.mp hi
  have hd : d + 1 - (1 + i) = d - i := by omega
  rw [hd]
  by_cases hc : 1 + i = d + 1
  · rw [if_pos hc, hc, hy]
  · rw [if_neg hc, build_getD_prefix _ x.length (d+1) (1+i) (by omega) (by omega)]

/-! ### real power: `x y' = r y x'` -/
theorem powRealS_zero (r y0 : K) (x : List K) (h : 0 < x.length) : co (powRealS r y0 x) 0 = y0 := by
  unfold powRealS
  rw [co_build _ _ _ h]
  simp [build, powRealStep]

theorem powRealS_length (r y0 : K) (x : List K) : (powRealS r y0 x).length = x.length := by
  simp [powRealS, build_length]

theorem powRealS_succ (r y0 : K) (x : List K) (hx : co x 0 ≠ 0) (d : Nat) (h : d + 1 < x.length) :
    co x 0 * (((d + 1 : Nat) : K) * co (powRealS r y0 x) (d+1))
      = r * ∑ i ∈ range (d+1), co (powRealS r y0 x) (d - i) * ((1 + i : Nat) : K) * co x (1+i)
        - ∑ j ∈ range d, co x (d - j) * ((1 + j : Nat) : K) * co (powRealS r y0 x) (1+j) := by
  have hne : ((d + 1 : Nat) : K) ≠ 0 := by exact_mod_cast Nat.succ_ne_zero d
  conv_lhs => unfold powRealS
  rw [co_build _ _ _ h, powRealStep]
  simp only [build_length, Nat.succ_ne_zero, if_false]
  rw [sumRange_eq, sumRange_eq]
  simp only [nat_eq, Nat.add_sub_cancel]
  have e1 : ∑ i ∈ range (d+1), co (build (powRealStep r y0 x) (d+1)) (d + 1 - (1 + i)) * ((1 + i : Nat) : K) * co x (1 + i)
      = ∑ i ∈ range (d+1), co (powRealS r y0 x) (d - i) * ((1 + i : Nat) : K) * co x (1+i) := by
    apply sum_congr rfl
    intro i hi
    have hi' := mem_range.mp hi
    have hd : d + 1 - (1 + i) = d - i := by omega
    unfold powRealS
    rw [hd, co_build_prefix _ x.length (d+1) (d-i) (by omega) (by omega)]
  have e2 : ∑ i ∈ range d, co x (d + 1 - (1 + i)) * ((1 + i : Nat) : K) * co (build (powRealStep r y0 x) (d+1)) (1 + i)
      = ∑ j ∈ range d, co x (d - j) * ((1 + j : Nat) : K) * co (powRealS r y0 x) (1+j) := by
    apply sum_congr rfl
    intro i hi
    have hi' := mem_range.mp hi
    have hd : d + 1 - (1 + i) = d - i := by omega
    unfold powRealS
    rw [hd, co_build_prefix _ x.length (d+1) (1+i) (by omega) (by omega)]
  rw [e1, e2]
  field_simp

end
end AV
