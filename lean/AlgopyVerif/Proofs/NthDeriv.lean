import AlgopyVerif.Model.NthDeriv
import Mathlib.Analysis.Calculus.IteratedDeriv.Lemmas
import Mathlib.Analysis.SpecialFunctions.ExpDeriv
import Mathlib.Analysis.SpecialFunctions.Log.Deriv
import Mathlib.Analysis.SpecialFunctions.Sqrt
import Mathlib.Analysis.SpecialFunctions.Trigonometric.Deriv
import Mathlib.Analysis.SpecialFunctions.Trigonometric.DerivHyp
import Mathlib.Analysis.SpecialFunctions.Pow.Deriv
import Mathlib.Analysis.Calculus.Deriv.Pow
import Mathlib.Analysis.Calculus.Deriv.Inv
import Mathlib.Tactic.FieldSimp
import Mathlib.Tactic.Ring
/-!
# Closed-form n-th derivatives are the iterated derivatives

`iteratedDeriv_of_chain`: if `F 0 = f` and, on an open set `S`, `F (n+1)` is the derivative of
`F n`, then `iteratedDeriv n f = F n` on `S` — exactly the property's formulation
("order 0 is the function itself and order n+1 is the derivative of order n").
-/
open Filter Topology

namespace AV

theorem iteratedDeriv_of_chain (S : Set ℝ) (hS : IsOpen S) (F : ℕ → ℝ → ℝ)
    (h : ∀ n x, x ∈ S → HasDerivAt (F n) (F (n+1) x) x) :
    ∀ n x, x ∈ S → iteratedDeriv n (F 0) x = F n x := by
  intro n
  induction n with
  | zero => intro x _; simp
  | succ n ih =>
    intro x hx
    rw [iteratedDeriv_succ]
    have heq : iteratedDeriv n (F 0) =ᶠ[𝓝 x] F n := by
      filter_upwards [hS.mem_nhds hx] with y hy using ih y hy
    rw [heq.deriv_eq]
    exact (h n x hx).deriv

/-! ### simp normal forms of the Mathlib-free helpers over ℝ -/
theorem powN_eq (x : ℝ) (n : ℕ) : powN x n = x ^ n := by
  induction n with
  | zero => rfl
  | succ n ih => rw [powN, ih, pow_succ]

theorem negOnePow_eq (n : ℕ) : (negOnePow n : ℝ) = (-1) ^ n := by
  unfold negOnePow
  rcases Nat.even_or_odd n with h | h
  · rw [if_pos (Nat.even_iff.mp h), h.neg_one_pow]
  · rw [if_neg (by rw [Nat.odd_iff.mp h]; decide), h.neg_one_pow]

theorem fact_eq (n : ℕ) : fact n = n.factorial := by
  induction n with
  | zero => rfl
  | succ n ih => rw [fact, ih, Nat.factorial_succ]

theorem nat_eq' (n : ℕ) : (nat n : ℝ) = (n : ℝ) := rfl

theorem pochK_succ_left (a : ℝ) (n : ℕ) : pochK a (n+1) = a * pochK (a+1) n := by
  induction n with
  | zero => simp [pochK, nat]
  | succ n ih =>
    rw [pochK, ih, pochK]
    simp only [nat]
    push_cast
    ring

theorem hasDerivAt_const_div_pow (c : ℝ) (n : ℕ) (x : ℝ) (hx : x ≠ 0) :
    HasDerivAt (fun y => c / y ^ n) (-(n:ℝ) * c / x ^ (n+1)) x := by
  have h : HasDerivAt (fun y => c / y ^ n) ((0 * x ^ n - c * ((n:ℝ) * x ^ (n - 1))) / (x ^ n) ^ 2) x :=
    (hasDerivAt_const x c).div (hasDerivAt_pow n x) (pow_ne_zero n hx)
  refine h.congr_deriv ?_
  rcases n with _ | n
  · simp
  · simp only [Nat.add_sub_cancel]
    push_cast
    field_simp
    ring

/-! ### instances -/

theorem chain_exp (n : ℕ) (x : ℝ) :
    HasDerivAt (fun y => dExp (Real.exp y) n) (dExp (Real.exp x) (n+1)) x := by
  unfold dExp
  exact Real.hasDerivAt_exp x

theorem chain_expm1 (n : ℕ) (x : ℝ) :
    HasDerivAt (fun y => dExpm1 (Real.exp y - 1) (Real.exp y) n) (dExpm1 (Real.exp x - 1) (Real.exp x) (n+1)) x := by
  rcases n with _ | n
  · simp only [dExpm1, if_true, Nat.succ_ne_zero, if_false, zero_add, one_ne_zero]
    exact (Real.hasDerivAt_exp x).sub_const 1
  · simp only [dExpm1, Nat.succ_ne_zero, if_false]
    exact Real.hasDerivAt_exp x

theorem chain_exp2 (n : ℕ) (x : ℝ) :
    HasDerivAt (fun y => dExp2 ((2:ℝ) ^ y) (Real.log 2) n) (dExp2 ((2:ℝ) ^ x) (Real.log 2) (n+1)) x := by
  unfold dExp2
  rw [powN_eq, powN_eq]
  have h : HasDerivAt (fun y : ℝ => (2:ℝ) ^ y * Real.log 2 ^ n) ((2:ℝ) ^ x * Real.log 2 * Real.log 2 ^ n) x :=
    ((Real.hasStrictDerivAt_const_rpow (a := 2) (by norm_num) x).hasDerivAt).mul_const (Real.log 2 ^ n)
  refine h.congr_deriv ?_
  rw [pow_succ]; ring

theorem chain_log (n : ℕ) (x : ℝ) (hx : x ≠ 0) :
    HasDerivAt (fun y => dLog (Real.log y) y n) (dLog (Real.log x) x (n+1)) x := by
  rcases n with _ | n
  · have h0 : (fun y => dLog (Real.log y) y 0) = Real.log := by funext y; simp [dLog]
    rw [h0]
    refine (Real.hasDerivAt_log hx).congr_deriv ?_
    simp [dLog, negOnePow, fact, powN, nat]
  · have h0 : (fun y => dLog (Real.log y) y (n+1)) = fun y => ((-1) ^ n * (n.factorial : ℝ)) / y ^ (n+1) := by
      funext y
      simp only [dLog, Nat.succ_ne_zero, if_false, Nat.add_sub_cancel, powN_eq, negOnePow_eq, nat_eq', fact_eq]
    rw [h0]
    refine (hasDerivAt_const_div_pow ((-1) ^ n * (n.factorial : ℝ)) (n+1) x hx).congr_deriv ?_
    simp only [dLog, Nat.succ_ne_zero, if_false, Nat.add_sub_cancel, powN_eq, negOnePow_eq, nat_eq', fact_eq]
    rw [Nat.factorial_succ, pow_succ]
    push_cast
    field_simp
    ring

theorem chain_log1p (n : ℕ) (x : ℝ) (hx : 1 + x ≠ 0) :
    HasDerivAt (fun y => dLog1p (Real.log (1 + y)) y n) (dLog1p (Real.log (1 + x)) x (n+1)) x := by
  have e : ∀ m (y : ℝ), dLog1p (Real.log (1 + y)) y m = dLog (Real.log (1 + y)) (1 + y) m := by
    intro m y; unfold dLog1p dLog; rfl
  have hcomp : HasDerivAt (fun y => dLog (Real.log (1 + y)) (1 + y) n) (dLog (Real.log (1 + x)) (1 + x) (n+1) * 1) x :=
    HasDerivAt.comp x (chain_log n (1 + x) hx) ((hasDerivAt_id x).const_add 1)
  have hf : (fun y => dLog1p (Real.log (1 + y)) y n) = fun y => dLog (Real.log (1 + y)) (1 + y) n := by
    funext y; exact e n y
  rw [hf, e]
  exact hcomp.congr_deriv (mul_one _)

theorem chain_logb (lb : ℝ) (n : ℕ) (x : ℝ) (hx : x ≠ 0) :
    HasDerivAt (fun y => dLogb (Real.log y / lb) lb y n) (dLogb (Real.log x / lb) lb x (n+1)) x := by
  have key : ∀ m, m ≠ 0 → ∀ (l y : ℝ), dLog 0 y m = dLog l y m := by
    intro m hm l y; simp [dLog, hm]
  rcases n with _ | n
  · have hf : (fun y => dLogb (Real.log y / lb) lb y 0) = fun y => dLog (Real.log y) y 0 / lb := by
      funext y; simp [dLogb, dLog]
    rw [hf]
    refine ((chain_log 0 x hx).div_const lb).congr_deriv ?_
    simp only [dLogb, Nat.succ_ne_zero, if_false, zero_add, one_ne_zero]
    rw [key 1 (by omega) (Real.log x) x]
  · have hf : (fun y => dLogb (Real.log y / lb) lb y (n+1)) = fun y => dLog (Real.log y) y (n+1) / lb := by
      funext y
      simp only [dLogb, Nat.succ_ne_zero, if_false]
      rw [key (n+1) (by omega) (Real.log y) y]
    rw [hf]
    refine ((chain_log (n+1) x hx).div_const lb).congr_deriv ?_
    simp only [dLogb, Nat.succ_ne_zero, if_false]
    rw [key (n+1+1) (by omega) (Real.log x) x]

theorem chain_reciprocal (n : ℕ) (x : ℝ) (hx : x ≠ 0) :
    HasDerivAt (fun y => dReciprocal y n) (dReciprocal x (n+1)) x := by
  have h0 : (fun y => dReciprocal y n) = fun y => ((-1) ^ n * (n.factorial : ℝ)) / y ^ (n+1) := by
    funext y
    simp only [dReciprocal, powN_eq, negOnePow_eq, nat_eq', fact_eq]
  rw [h0]
  refine (hasDerivAt_const_div_pow ((-1) ^ n * (n.factorial : ℝ)) (n+1) x hx).congr_deriv ?_
  simp only [dReciprocal, powN_eq, negOnePow_eq, nat_eq', fact_eq]
  rw [Nat.factorial_succ, pow_succ]
  push_cast
  field_simp
  ring

theorem chain_square (n : ℕ) (x : ℝ) : HasDerivAt (fun y => dSquare y n) (dSquare x (n+1)) x := by
  match n with
  | 0 =>
    have h : HasDerivAt (fun y : ℝ => y * y) (1 * x + x * 1) x := (hasDerivAt_id x).mul (hasDerivAt_id x)
    have hf : (fun y : ℝ => dSquare y 0) = fun y => y * y := by funext y; simp [dSquare]
    rw [hf]
    refine h.congr_deriv ?_
    simp [dSquare, nat]; ring
  | 1 =>
    have h : HasDerivAt (fun y : ℝ => y * 2) (1 * 2) x := (hasDerivAt_id x).mul_const (2:ℝ)
    have hf : (fun y : ℝ => dSquare y 1) = fun y => y * 2 := by funext y; simp [dSquare, nat]
    rw [hf]
    refine h.congr_deriv ?_
    simp [dSquare, nat]
  | 2 =>
    have hf : (fun y : ℝ => dSquare y 2) = fun _ => (2:ℝ) := by funext y; simp [dSquare, nat]
    rw [hf]
    refine (hasDerivAt_const x (2:ℝ)).congr_deriv ?_
    simp [dSquare]
  | n+3 =>
    have hf : (fun y : ℝ => dSquare y (n+3)) = fun _ => (0:ℝ) := by funext y; simp [dSquare]
    rw [hf]
    refine (hasDerivAt_const x (0:ℝ)).congr_deriv ?_
    simp [dSquare]

theorem chain_negative (n : ℕ) (x : ℝ) : HasDerivAt (fun y => dNegative y n) (dNegative x (n+1)) x := by
  match n with
  | 0 =>
    have h : HasDerivAt (fun y : ℝ => -y) (-1) x := (hasDerivAt_id x).neg
    have hf : (fun y : ℝ => dNegative y 0) = fun y => -y := by funext y; simp [dNegative]
    rw [hf]
    exact h.congr_deriv (by simp [dNegative])
  | 1 =>
    have hf : (fun y : ℝ => dNegative y 1) = fun _ => (-1:ℝ) := by funext y; simp [dNegative]
    rw [hf]
    exact (hasDerivAt_const x (-1:ℝ)).congr_deriv (by simp [dNegative])
  | n+2 =>
    have hf : (fun y : ℝ => dNegative y (n+2)) = fun _ => (0:ℝ) := by funext y; simp [dNegative]
    rw [hf]
    exact (hasDerivAt_const x (0:ℝ)).congr_deriv (by simp [dNegative])

theorem chain_sin (n : ℕ) (x : ℝ) :
    HasDerivAt (fun y => dSin (Real.sin y) (Real.cos y) n) (dSin (Real.sin x) (Real.cos x) (n+1)) x := by
  have h4 : n % 4 = 0 ∨ n % 4 = 1 ∨ n % 4 = 2 ∨ n % 4 = 3 := by omega
  rcases h4 with h | h | h | h
  · have h' : (n+1) % 4 = 1 := by omega
    simp only [dSin, h, h']; exact Real.hasDerivAt_sin x
  · have h' : (n+1) % 4 = 2 := by omega
    simp only [dSin, h, h']; exact Real.hasDerivAt_cos x
  · have h' : (n+1) % 4 = 3 := by omega
    simp only [dSin, h, h']; exact (Real.hasDerivAt_sin x).fun_neg
  · have h' : (n+1) % 4 = 0 := by omega
    simp only [dSin, h, h']
    have hc : HasDerivAt (fun y => -Real.cos y) (-(-Real.sin x)) x := (Real.hasDerivAt_cos x).neg
    rw [neg_neg] at hc
    exact hc

theorem chain_cos (n : ℕ) (x : ℝ) :
    HasDerivAt (fun y => dCos (Real.sin y) (Real.cos y) n) (dCos (Real.sin x) (Real.cos x) (n+1)) x := by
  have h4 : n % 4 = 0 ∨ n % 4 = 1 ∨ n % 4 = 2 ∨ n % 4 = 3 := by omega
  rcases h4 with h | h | h | h
  · have h' : (n+1) % 4 = 1 := by omega
    simp only [dCos, h, h']; exact Real.hasDerivAt_cos x
  · have h' : (n+1) % 4 = 2 := by omega
    simp only [dCos, h, h']; exact (Real.hasDerivAt_sin x).fun_neg
  · have h' : (n+1) % 4 = 3 := by omega
    simp only [dCos, h, h']
    have hc : HasDerivAt (fun y => -Real.cos y) (-(-Real.sin x)) x := (Real.hasDerivAt_cos x).neg
    rw [neg_neg] at hc
    exact hc
  · have h' : (n+1) % 4 = 0 := by omega
    simp only [dCos, h, h']; exact Real.hasDerivAt_sin x

theorem chain_sinh (n : ℕ) (x : ℝ) :
    HasDerivAt (fun y => dSinh (Real.sinh y) (Real.cosh y) n) (dSinh (Real.sinh x) (Real.cosh x) (n+1)) x := by
  rcases Nat.even_or_odd n with h | h
  · have h0 : n % 2 = 0 := Nat.even_iff.mp h
    have h1 : ¬ ((n+1) % 2 = 0) := by omega
    simp only [dSinh, h0, h1, if_true, if_false]; exact Real.hasDerivAt_sinh x
  · have h0 : ¬ (n % 2 = 0) := by have := Nat.odd_iff.mp h; omega
    have h1 : (n+1) % 2 = 0 := by have := Nat.odd_iff.mp h; omega
    simp only [dSinh, h0, h1, if_true, if_false]; exact Real.hasDerivAt_cosh x

theorem chain_cosh (n : ℕ) (x : ℝ) :
    HasDerivAt (fun y => dCosh (Real.sinh y) (Real.cosh y) n) (dCosh (Real.sinh x) (Real.cosh x) (n+1)) x := by
  rcases Nat.even_or_odd n with h | h
  · have h0 : n % 2 = 0 := Nat.even_iff.mp h
    have h1 : ¬ ((n+1) % 2 = 0) := by omega
    simp only [dCosh, h0, h1, if_true, if_false]; exact Real.hasDerivAt_cosh x
  · have h0 : ¬ (n % 2 = 0) := by have := Nat.odd_iff.mp h; omega
    have h1 : (n+1) % 2 = 0 := by have := Nat.odd_iff.mp h; omega
    simp only [dCosh, h0, h1, if_true, if_false]; exact Real.hasDerivAt_sinh x

/-- `gammaln`, `psi`, `polygamma`: pure index arithmetic once the leaves satisfy
`polygamma (k+1) = (polygamma k)'` and `gammaln' = polygamma 0` -/
theorem chain_polygamma (pgf : ℕ → ℝ → ℝ) (S : Set ℝ)
    (hpg : ∀ k x, x ∈ S → HasDerivAt (pgf k) (pgf (k+1) x) x) (m n : ℕ) (x : ℝ) (hx : x ∈ S) (N : ℕ) (hN : m + n + 1 < N) :
    HasDerivAt (fun y => dPolygamma m ((List.range N).map fun k => pgf k y) n)
      (dPolygamma m ((List.range N).map fun k => pgf k x) (n+1)) x := by
  have e : ∀ (j : ℕ) (y : ℝ), j < N → co ((List.range N).map fun k => pgf k y) j = pgf j y := by
    intro j y hj
    unfold co
    rw [List.getD_eq_getElem?_getD]
    simp [hj]
  unfold dPolygamma
  rw [e _ x (by omega)]
  have : (fun y => co ((List.range N).map fun k => pgf k y) (m + n)) = pgf (m+n) := by
    funext y; exact e _ y (by omega)
  rw [this]
  exact hpg (m+n) x hx

end AV

namespace AV
open Filter Topology

theorem chain_sqrt (n : ℕ) (x : ℝ) (hx : 0 < x) :
    HasDerivAt (fun y => dSqrt (Real.sqrt y) y n) (dSqrt (Real.sqrt x) x (n+1)) x := by
  have hs : Real.sqrt x ≠ 0 := (Real.sqrt_pos.mpr hx).ne'
  have hsq : Real.sqrt x * Real.sqrt x = x := Real.mul_self_sqrt hx.le
  have hx0 : x ≠ 0 := hx.ne'
  rcases n with _ | n
  · have hf : (fun y => dSqrt (Real.sqrt y) y 0) = Real.sqrt := by funext y; simp [dSqrt]
    rw [hf]
    refine (Real.hasDerivAt_sqrt hx.ne').congr_deriv ?_
    simp only [dSqrt, pochK, powN, nat]
    norm_num
    field_simp
    nlinarith [hsq]
  · have hf : (fun y => dSqrt (Real.sqrt y) y (n+1))
        = fun y => pochK ((3:ℝ) / 2 - ((n+1 : ℕ) : ℝ)) (n+1) * (Real.sqrt y / y ^ (n+1)) := by
      funext y
      simp only [dSqrt, Nat.succ_ne_zero, if_false, powN_eq, nat_eq']
      norm_num
    rw [hf]
    have hd : HasDerivAt (fun y => Real.sqrt y / y ^ (n+1))
        ((1 / (2 * Real.sqrt x) * x ^ (n+1) - Real.sqrt x * (((n+1 : ℕ) : ℝ) * x ^ (n + 1 - 1))) / (x ^ (n+1)) ^ 2) x :=
      (Real.hasDerivAt_sqrt hx.ne').div (hasDerivAt_pow (n+1) x) (pow_ne_zero _ hx.ne')
    refine (hd.const_mul (pochK ((3:ℝ) / 2 - ((n+1 : ℕ) : ℝ)) (n+1))).congr_deriv ?_
    simp only [Nat.add_sub_cancel]
    have hp : pochK ((3:ℝ) / 2 - ((n + 1 + 1 : ℕ) : ℝ)) (n + 1 + 1)
        = ((1:ℝ) / 2 - ((n+1 : ℕ) : ℝ)) * pochK ((3:ℝ) / 2 - ((n+1 : ℕ) : ℝ)) (n+1) := by
      rw [pochK_succ_left]
      have : (3:ℝ) / 2 - ((n + 1 + 1 : ℕ) : ℝ) + 1 = 3 / 2 - ((n+1 : ℕ) : ℝ) := by push_cast; ring
      rw [this]
      congr 1
      push_cast; ring
    simp only [dSqrt, Nat.succ_ne_zero, if_false, powN_eq, nat_eq']
    have e3' : ((3:ℕ):ℝ) / ((2:ℕ):ℝ) = 3 / 2 := by norm_num
    rw [e3', hp]
    set P := pochK ((3:ℝ) / 2 - ((n+1 : ℕ) : ℝ)) (n+1) with hP
    have h1 : 1 / (2 * Real.sqrt x) = Real.sqrt x / (2 * x) := by
      field_simp; nlinarith [hsq]
    rw [h1]
    field_simp
    ring

theorem chain_arctanh_aux (n : ℕ) (x : ℝ) (h1 : 1 - x ≠ 0) (h2 : x + 1 ≠ 0) :
    HasDerivAt (fun y : ℝ => (1 / (1 - y) ^ (n+1) + (-1) ^ n / (y + 1) ^ (n+1)) * ((n.factorial : ℝ) / 2))
      ((1 / (1 - x) ^ (n+2) + (-1) ^ (n+1) / (x + 1) ^ (n+2)) * (((n+1).factorial : ℝ) / 2)) x := by
  have ha : HasDerivAt (fun y : ℝ => 1 / (1 - y) ^ (n+1)) (-((n+1 : ℕ) : ℝ) * 1 / (1 - x) ^ (n+1+1) * (-1)) x := by
    have := HasDerivAt.comp x (hasDerivAt_const_div_pow 1 (n+1) (1 - x) h1) ((hasDerivAt_id x).const_sub 1)
    exact this
  have hb : HasDerivAt (fun y : ℝ => (-1) ^ n / (y + 1) ^ (n+1)) (-((n+1 : ℕ) : ℝ) * (-1) ^ n / (x + 1) ^ (n+1+1) * 1) x := by
    have := HasDerivAt.comp x (hasDerivAt_const_div_pow ((-1) ^ n) (n+1) (x + 1) h2) ((hasDerivAt_id x).add_const 1)
    exact this
  refine ((ha.add hb).mul_const ((n.factorial : ℝ) / 2)).congr_deriv ?_
  rw [Nat.factorial_succ, pow_succ (-1 : ℝ) n]
  push_cast
  field_simp

/-- `arctanh` on `(-1, 1)` -/
theorem chain_arctanh (n : ℕ) (x : ℝ) (h1 : 1 - x ≠ 0) (h2 : x + 1 ≠ 0) (l : ℝ → ℝ)
    (hl : HasDerivAt l (1 / (1 - x ^ 2)) x) :
    HasDerivAt (fun y => dArctanh (l y) y n) (dArctanh (l x) x (n+1)) x := by
  rcases n with _ | n
  · have hf : (fun y => dArctanh (l y) y 0) = l := by funext y; simp [dArctanh]
    rw [hf]
    refine hl.congr_deriv ?_
    simp only [dArctanh, Nat.succ_ne_zero, if_false, zero_add, one_ne_zero, powN_eq, negOnePow_eq, nat_eq',
      fact_eq, Nat.sub_self]
    have : (1:ℝ) - x ^ 2 = (1 - x) * (x + 1) := by ring
    rw [this]
    norm_num
    field_simp
    ring
  · have hf : (fun y => dArctanh (l y) y (n+1))
        = fun y : ℝ => (1 / (1 - y) ^ (n+1) + (-1) ^ n / (y + 1) ^ (n+1)) * ((n.factorial : ℝ) / 2) := by
      funext y
      simp only [dArctanh, Nat.succ_ne_zero, if_false, powN_eq, negOnePow_eq, nat_eq', fact_eq, Nat.add_sub_cancel]
      norm_num
    rw [hf]
    refine (chain_arctanh_aux n x h1 h2).congr_deriv ?_
    simp only [dArctanh, Nat.succ_ne_zero, if_false, powN_eq, negOnePow_eq, nat_eq', fact_eq, Nat.add_sub_cancel]
    norm_num

/-- `hyperu(a, b, ·)` under the contiguous relation `U'(a,b,x) = -a U(a+1,b+1,x)` of the leaves -/
theorem chain_hyperu (a : ℝ) (u : ℕ → ℝ → ℝ) (S : Set ℝ)
    (hu : ∀ k x, x ∈ S → HasDerivAt (u k) (-(a + k) * u (k+1) x) x) (n : ℕ) (x : ℝ) (hx : x ∈ S)
    (N : ℕ) (hN : n + 1 < N) :
    HasDerivAt (fun y => dHyperu a ((List.range N).map fun k => u k y) n)
      (dHyperu a ((List.range N).map fun k => u k x) (n+1)) x := by
  have e : ∀ (j : ℕ) (y : ℝ), j < N → co ((List.range N).map fun k => u k y) j = u j y := by
    intro j y hj
    unfold co
    rw [List.getD_eq_getElem?_getD]
    simp [hj]
  unfold dHyperu
  rw [e _ x (by omega)]
  have hf : (fun y => negOnePow n * pochK a n * co ((List.range N).map fun k => u k y) n)
      = fun y => negOnePow n * pochK a n * u n y := by
    funext y; rw [e _ y (by omega)]
  rw [hf]
  refine ((hu n x hx).const_mul (negOnePow n * pochK a n)).congr_deriv ?_
  rw [negOnePow_eq, negOnePow_eq, pochK, pow_succ]
  simp only [nat_eq']
  ring

end AV
