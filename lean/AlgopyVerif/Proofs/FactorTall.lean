import AlgopyVerif.Proofs.FactorTri
/-!
# Tall QR (`_qr_rectangular` with `M > N`, algorithms.py): the step equations imply the defining identities

`A(t)` is `m × n` with linearly independent columns, `Q(t)` is `m × n` with orthonormal columns, `R(t)` is `n × n` upper
triangular.  The loop body differs from the square case in its last step only: `Q_d = (H − Q_0 R_d) R_0⁻¹` (there is no
`Q_0 Q_0ᵀ = 1` to use).  The theorems derive, from one pass of the loop, the order-`d` coefficients of `Q R = A` and `QᵀQ = 1`
and the triangular structure of `R_d`.
-/
open Matrix Finset
namespace AV.Factor
variable {m n : Type} [Fintype m] [Fintype n] [DecidableEq m] [DecidableEq n] {K : Type} [Field K]

theorem sum_split' {M : Type} [AddCommMonoid M] (f : ℕ → M) (d : ℕ) (hd : 1 ≤ d) :
    ∑ k ∈ Finset.range (d + 1), f k = f 0 + f d + ∑ k ∈ Finset.Ico 1 d, f k := by
  rw [Finset.sum_range_succ, Finset.range_eq_Ico, Finset.sum_eq_sum_Ico_succ_bot (by omega)]
  rw [add_assoc, add_comm (∑ k ∈ Finset.Ico (0 + 1) d, f k) (f d), ← add_assoc]

structure QRTallStep (lt : n → n → Prop) [DecidableRel lt]
    (A Q : ℕ → Matrix m n K) (R : ℕ → Matrix n n K) (Rinv : Matrix n n K) (d : ℕ) where
  H : Matrix m n K
  S : Matrix n n K
  X : Matrix n n K
  hH : H = A d - ∑ k ∈ Finset.Ico 1 d, Q k * R (d - k)
  hS : S = (2 : K)⁻¹ • (-(∑ k ∈ Finset.Ico 1 d, (Q k)ᵀ * Q (d - k)))
  hX : X = PL lt ((Q 0)ᵀ * H * Rinv - S) - (PL lt ((Q 0)ᵀ * H * Rinv - S))ᵀ
  hR : R d = (Q 0)ᵀ * H - (S + X) * R 0
  hQ : Q d = (H - Q 0 * R d) * Rinv

/-- `Q·R = A` at order `d` (needs `R_0⁻¹ R_0 = 1` only) -/
theorem qr_tall_eq (lt : n → n → Prop) [DecidableRel lt] (A Q : ℕ → Matrix m n K) (R : ℕ → Matrix n n K) (Rinv : Matrix n n K)
    (d : ℕ) (hd : 1 ≤ d) (hinv : Rinv * R 0 = 1) (st : QRTallStep lt A Q R Rinv d) :
    ∑ k ∈ Finset.range (d + 1), Q k * R (d - k) = A d := by
  rw [sum_split' _ d hd]
  simp only [Nat.sub_zero, Nat.sub_self]
  have hsum : ∑ k ∈ Finset.Ico 1 d, Q k * R (d - k) = A d - st.H := by rw [st.hH]; abel
  have hQR : Q d * R 0 = st.H - Q 0 * R d := by
    rw [st.hQ, Matrix.mul_assoc, hinv, Matrix.mul_one]
  rw [hsum, hQR]
  abel

theorem sum_Ico_symm' (Q : ℕ → Matrix m n K) (d : ℕ) :
    (∑ k ∈ Finset.Ico 1 d, (Q k)ᵀ * Q (d - k))ᵀ = ∑ k ∈ Finset.Ico 1 d, (Q k)ᵀ * Q (d - k) := by
  rw [Matrix.transpose_sum]
  simp only [Matrix.transpose_mul, Matrix.transpose_transpose]
  apply Finset.sum_bij' (fun k _ => d - k) (fun k _ => d - k)
  · intro k hk; simp only [Finset.mem_Ico] at hk ⊢; omega
  · intro k hk; simp only [Finset.mem_Ico] at hk ⊢; omega
  · intro k hk; simp only [Finset.mem_Ico] at hk; omega
  · intro k hk; simp only [Finset.mem_Ico] at hk; omega
  · intro k hk
    simp only [Finset.mem_Ico] at hk
    have : d - (d - k) = k := by omega
    rw [this]

/-- `Q_0ᵀ Q_d = S + X`: the last step of the tall loop reproduces the square case's `Q_d = Q_0 (S + X)` after projection -/
theorem qr_tall_proj (lt : n → n → Prop) [DecidableRel lt] (A Q : ℕ → Matrix m n K) (R : ℕ → Matrix n n K) (Rinv : Matrix n n K)
    (d : ℕ) (h0 : (Q 0)ᵀ * Q 0 = 1) (hinv' : R 0 * Rinv = 1) (st : QRTallStep lt A Q R Rinv d) :
    (Q 0)ᵀ * Q d = st.S + st.X := by
  rw [st.hQ, ← Matrix.mul_assoc, Matrix.mul_sub, ← Matrix.mul_assoc, h0, Matrix.one_mul, st.hR]
  have : (Q 0)ᵀ * st.H - ((Q 0)ᵀ * st.H - (st.S + st.X) * R 0) = (st.S + st.X) * R 0 := by abel
  rw [this, Matrix.mul_assoc, hinv', Matrix.mul_one]

/-- `QᵀQ = I` at order `d ≥ 1` -/
theorem qr_tall_qtq [CharZero K] (lt : n → n → Prop) [DecidableRel lt] (A Q : ℕ → Matrix m n K) (R : ℕ → Matrix n n K)
    (Rinv : Matrix n n K) (d : ℕ) (hd : 1 ≤ d) (h0 : (Q 0)ᵀ * Q 0 = 1) (hinv' : R 0 * Rinv = 1)
    (st : QRTallStep lt A Q R Rinv d) :
    ∑ k ∈ Finset.range (d + 1), (Q k)ᵀ * Q (d - k) = 0 := by
  rw [sum_split' _ d hd]
  simp only [Nat.sub_zero, Nat.sub_self]
  set G := ∑ k ∈ Finset.Ico 1 d, (Q k)ᵀ * Q (d - k) with hG
  have hGs : Gᵀ = G := sum_Ico_symm' Q d
  have hS : st.S = (2 : K)⁻¹ • (-G) := st.hS
  have hSs : st.Sᵀ = st.S := by rw [hS]; simp [Matrix.transpose_smul, Matrix.transpose_neg, hGs]
  have hXa : st.Xᵀ = -st.X := by
    rw [st.hX]; simp [Matrix.transpose_sub]
  have h2 : G = -((2 : K) • st.S) := by
    rw [hS, smul_smul, mul_inv_cancel₀ (two_ne_zero), one_smul, neg_neg]
  have hp := qr_tall_proj lt A Q R Rinv d h0 hinv' st
  have hpT : (Q d)ᵀ * Q 0 = st.S - st.X := by
    have := congrArg Matrix.transpose hp
    rw [Matrix.transpose_mul, Matrix.transpose_transpose, Matrix.transpose_add, hSs, hXa] at this
    rw [this]; abel
  rw [hp, hpT, h2, two_smul]
  abel

/-- **tall QR: `R_d` is upper triangular** -/
theorem qr_tall_R_upper (lt : n → n → Prop) [DecidableRel lt] (hneg : ∀ i k j, lt j i → lt k i ∨ lt j k)
    (hasym : ∀ i j, lt i j → ¬ lt j i) (A Q : ℕ → Matrix m n K) (R : ℕ → Matrix n n K) (Rinv : Matrix n n K) (d : ℕ)
    (hinv : Rinv * R 0 = 1) (hR0 : IsUpper lt (R 0)) (st : QRTallStep lt A Q R Rinv d) : IsUpper lt (R d) := by
  have hfac : R d = ((Q 0)ᵀ * st.H * Rinv - (st.S + st.X)) * R 0 := by
    rw [st.hR, Matrix.sub_mul, Matrix.mul_assoc ((Q 0)ᵀ * st.H), hinv, Matrix.mul_one]
  rw [hfac]
  refine upper_mul_upper lt hneg _ _ ?_ hR0
  intro i j hij
  have hX : st.X i j = ((Q 0)ᵀ * st.H * Rinv - st.S) i j := by
    rw [st.hX, Matrix.sub_apply, Matrix.transpose_apply]
    simp [PL, hij, hasym j i hij]
  rw [Matrix.sub_apply, Matrix.add_apply, hX, Matrix.sub_apply]
  ring

end AV.Factor
