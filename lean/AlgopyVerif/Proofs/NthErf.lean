import AlgopyVerif.Proofs.NthDeriv
import AlgopyVerif.Proofs.Build
import Mathlib.Analysis.Calculus.Deriv.Polynomial
import Mathlib.Analysis.SpecialFunctions.ExpDeriv
/-!
# n-th derivatives of `erf` / `erfi`-like functions: `E' = c · exp(s y²)` (`s = -1`: erf, `s = +1`: erfi)

`E⁽ᴺ⁺¹⁾(x) = c · exp(s x²) · R_N(x)` with `R_0 = 1`, `R_{N+1} = R_N' + 2 s X R_N` (up to sign the physicists'
Hermite polynomials), and the explicit coefficients
`coeff R_{2n+k} k = s^{n+k} 2^k (2n+k)! / (k! n!)` — the finite sum `nthderiv.erf/erfi` evaluates.
-/
open Polynomial

namespace AV

noncomputable def erfR (s : ℝ) : ℕ → ℝ[X]
  | 0 => 1
  | N + 1 => derivative (erfR s N) + C (2 * s) * X * erfR s N

theorem erfR_chain (s c : ℝ) (N : ℕ) (x : ℝ) :
    HasDerivAt (fun y => c * Real.exp (s * (y * y)) * (erfR s N).eval y)
      (c * Real.exp (s * (x * x)) * (erfR s (N + 1)).eval x) x := by
  have h1 : HasDerivAt (fun y : ℝ => Real.exp (s * (y * y))) (Real.exp (s * (x * x)) * (s * (1 * x + x * 1))) x :=
    (((hasDerivAt_id x).mul (hasDerivAt_id x)).const_mul s).exp
  have h2 := (erfR s N).hasDerivAt x
  have h := ((h1.mul h2).const_mul c)
  refine (h.congr_deriv ?_).congr_of_eventuallyEq ?_
  · simp only [erfR, eval_add, eval_mul, eval_C, eval_X]
    ring
  · exact Filter.Eventually.of_forall fun y => by simp only [Pi.mul_apply]; ring

/-- `E⁽ᴺ⁺¹⁾ = c exp(s x²) R_N(x)` for every `E` with `E' = c exp(s y²)` -/
theorem iteratedDeriv_erf_like (s c : ℝ) (E : ℝ → ℝ) (hE : ∀ y, HasDerivAt E (c * Real.exp (s * (y * y))) y)
    (N : ℕ) (x : ℝ) : iteratedDeriv (N + 1) E x = c * Real.exp (s * (x * x)) * (erfR s N).eval x := by
  have := iteratedDeriv_of_chain Set.univ isOpen_univ
    (fun n y => match n with | 0 => E y | n + 1 => c * Real.exp (s * (y * y)) * (erfR s n).eval y)
    (fun n x _ => by
      match n with
      | 0 =>
        simp only
        have := hE x
        simpa [erfR] using this
      | n + 1 => exact erfR_chain s c n x) (N + 1) x (Set.mem_univ x)
  simpa using this

/-! ### coefficients -/
theorem coeff_erfR_succ_zero (s : ℝ) (N : ℕ) : coeff (erfR s (N + 1)) 0 = coeff (erfR s N) 1 := by
  simp [erfR, coeff_derivative, mul_assoc, coeff_C_mul, coeff_X_mul_zero]

theorem coeff_erfR_succ_succ (s : ℝ) (N k : ℕ) :
    coeff (erfR s (N + 1)) (k + 1) = ((k : ℝ) + 2) * coeff (erfR s N) (k + 2) + 2 * s * coeff (erfR s N) k := by
  simp only [erfR, coeff_add, coeff_derivative, mul_assoc, coeff_C_mul, coeff_X_mul]
  push_cast
  ring

theorem coeff_erfR_of_lt (s : ℝ) : ∀ (N k : ℕ), N < k → coeff (erfR s N) k = 0 := by
  intro N
  induction N with
  | zero =>
    intro k hk
    simp only [erfR]
    rw [coeff_one]; simp; omega
  | succ N ih =>
    intro k hk
    cases k with
    | zero => omega
    | succ k => rw [coeff_erfR_succ_succ, ih (k + 2) (by omega), ih k (by omega)]; ring

open scoped Nat in
/-- explicit coefficients, multiplicative form -/
theorem coeff_erfR_explicit (s : ℝ) :
    ∀ n k : ℕ, ((k ! : ℝ) * (n ! : ℝ)) * coeff (erfR s (2 * n + k)) k = s ^ (n + k) * 2 ^ k * ((2 * n + k) ! : ℝ)
  | 0, 0 => by simp [erfR]
  | 0, k + 1 => by
    have ih := coeff_erfR_explicit s 0 k
    simp only [Nat.mul_zero, Nat.zero_add, Nat.factorial_zero, Nat.cast_one, mul_one] at ih ⊢
    rw [coeff_erfR_succ_succ, coeff_erfR_of_lt s k (k + 2) (by omega), mul_zero, zero_add]
    have hk1 : ((k + 1) ! : ℝ) = ((k : ℝ) + 1) * (k ! : ℝ) := by rw [Nat.factorial_succ]; push_cast; ring
    rw [hk1]
    linear_combination (2 * s * ((k : ℝ) + 1)) * ih
  | n + 1, 0 => by
    have ih := coeff_erfR_explicit s n 1
    have e : 2 * (n + 1) + 0 = (2 * n + 1) + 1 := by ring
    rw [e, coeff_erfR_succ_zero]
    simp only [Nat.factorial_zero, Nat.factorial_one, Nat.cast_one, one_mul, Nat.add_zero, pow_zero, mul_one] at ih ⊢
    have hn1 : ((n + 1) ! : ℝ) = ((n : ℝ) + 1) * (n ! : ℝ) := by rw [Nat.factorial_succ]; push_cast; ring
    have hN : ((2 * n + 1 + 1) ! : ℝ) = (2 * (n : ℝ) + 2) * ((2 * n + 1) ! : ℝ) := by
      rw [Nat.factorial_succ]; push_cast; ring
    rw [hn1, hN]
    linear_combination ((n : ℝ) + 1) * ih
  | n + 1, k + 1 => by
    have ih1 := coeff_erfR_explicit s n (k + 2)
    have ih2 := coeff_erfR_explicit s (n + 1) k
    have e : 2 * (n + 1) + (k + 1) = (2 * n + (k + 2)) + 1 := by ring
    have e2 : 2 * (n + 1) + k = 2 * n + (k + 2) := by ring
    rw [e, coeff_erfR_succ_succ]
    rw [e2] at ih2
    set c1 := coeff (erfR s (2 * n + (k + 2))) (k + 2) with hc1
    set c2 := coeff (erfR s (2 * n + (k + 2))) k with hc2
    have hk2 : ((k + 2) ! : ℝ) = ((k : ℝ) + 2) * (((k : ℝ) + 1) * (k ! : ℝ)) := by
      rw [Nat.factorial_succ (k + 1), Nat.factorial_succ k]; push_cast; ring
    have hn1 : ((n + 1) ! : ℝ) = ((n : ℝ) + 1) * (n ! : ℝ) := by rw [Nat.factorial_succ]; push_cast; ring
    have hk1 : ((k + 1) ! : ℝ) = ((k : ℝ) + 1) * (k ! : ℝ) := by rw [Nat.factorial_succ]; push_cast; ring
    have hN : ((2 * n + (k + 2) + 1) ! : ℝ) = ((2 * n + (k + 2) : ℕ) + 1 : ℝ) * ((2 * n + (k + 2)) ! : ℝ) := by
      rw [Nat.factorial_succ]; push_cast; ring
    rw [hk2] at ih1
    rw [hn1] at ih2
    rw [hk1, hn1, hN]
    have hp : s ^ (n + 1 + (k + 1)) = s ^ (n + (k + 2)) := by ring_nf
    have hp2 : s ^ (n + 1 + k) * s = s ^ (n + (k + 2)) := by ring_nf
    push_cast
    rw [hp]
    linear_combination ((n : ℝ) + 1) * ih1 + 2 * s * ((k : ℝ) + 1) * ih2 + (2 * ((k:ℝ) + 1) * 2 ^ k * ((2 * n + (k + 2)) ! : ℝ)) * hp2


/-- `coeff R_N k = 0` when `N + k` is odd -/
theorem coeff_erfR_of_odd_add (s : ℝ) : ∀ (N k : ℕ), (N + k) % 2 = 1 → coeff (erfR s N) k = 0 := by
  intro N
  induction N with
  | zero =>
    intro k hk
    simp only [erfR]
    rw [coeff_one]; simp; omega
  | succ N ih =>
    intro k hk
    cases k with
    | zero => rw [coeff_erfR_succ_zero]; exact ih 1 (by omega)
    | succ k => rw [coeff_erfR_succ_succ, ih (k + 2) (by omega), ih k (by omega)]; ring

open scoped Nat in
theorem pochK_nat (j m : ℕ) : pochK (((j + 1 : ℕ) : ℝ)) m * (j ! : ℝ) = ((j + m) ! : ℝ) := by
  induction m with
  | zero => simp [pochK]
  | succ m ih =>
    rw [pochK, nat_eq', ← add_assoc, Nat.factorial_succ (j + m)]
    push_cast at ih ⊢
    linear_combination ((j : ℝ) + 1 + m) * ih

open scoped Nat in
/-- one term of the model's sum is one monomial of `R_N` -/
theorem erfTerm_eq (s : ℝ) (x : ℝ) (j m : ℕ) :
    s ^ (m + j) * (2:ℝ) ^ j * x ^ j * pochK (((j + 1 : ℕ) : ℝ)) (2 * m) / (m ! : ℝ)
      = coeff (erfR s (2 * m + j)) j * x ^ j := by
  have h := coeff_erfR_explicit s m j
  have hp := pochK_nat j (2 * m)
  have hj : ((j ! : ℕ) : ℝ) ≠ 0 := by exact_mod_cast (Nat.factorial_ne_zero j)
  have hm : ((m ! : ℕ) : ℝ) ≠ 0 := by exact_mod_cast (Nat.factorial_ne_zero m)
  have e : j + 2 * m = 2 * m + j := by ring
  rw [e] at hp
  rw [div_eq_iff hm]
  have : pochK (((j + 1 : ℕ) : ℝ)) (2 * m) = ((2 * m + j) ! : ℝ) / (j ! : ℝ) := by
    rw [eq_div_iff hj]; exact hp
  rw [this]
  field_simp
  linear_combination (-(x ^ j)) * h

/-- `R_N(x)` as the sum over its monomials -/
theorem erfR_eval (s x : ℝ) (N : ℕ) :
    (erfR s N).eval x = ∑ j ∈ Finset.range (N + 1), coeff (erfR s N) j * x ^ j := by
  rw [Polynomial.eval_eq_sum_range' (n := N + 1)]
  rw [Nat.lt_succ_iff, Polynomial.natDegree_le_iff_coeff_eq_zero]
  intro k hk
  exact coeff_erfR_of_lt s N k hk

/-- the model's `k`-th term, in the coordinates `j = 2k+1-n` (power of `x`) and `m = n-1-k` -/
theorem erfModelTerm (alt : Bool) (x : ℝ) (k j m : ℕ) (hk : k = m + j) :
    (if alt then negOnePow k else 1) * powN (nat 2) j * powN x j * pochK (nat (j + 1)) (2 * m) / nat (fact m)
      = coeff (erfR (if alt then -1 else 1) (2 * m + j)) j * x ^ j := by
  rw [← erfTerm_eq, powN_eq, powN_eq, fact_eq, nat_eq', nat_eq', nat_eq', ← hk]
  have hsgn : (if alt then (negOnePow k : ℝ) else 1) = (if alt then (-1:ℝ) else 1) ^ k := by
    cases alt <;> simp [negOnePow_eq]
  rw [hsgn]
  norm_num

/-- the model's polynomial factor is `R_{n-1}(x)`: `erfPoly alt x (N+1) = R_N(x)` with `s = ∓1` -/
theorem erfPoly_eq (alt : Bool) (x : ℝ) (N : ℕ) :
    erfPoly alt x (N + 1) = (erfR (if alt then -1 else 1) N).eval x := by
  set s : ℝ := if alt then -1 else 1 with hs
  rw [erfR_eval, erfPoly, sumRange_eq]
  simp only [Nat.sub_zero, Nat.zero_add]
  symm
  refine Finset.sum_bij_ne_zero (fun j _ _ => (N + j) / 2) ?_ ?_ ?_ ?_
  · intro j hj _
    have := Finset.mem_range.mp hj
    exact Finset.mem_range.mpr (by omega)
  · intro j₁ h₁ n₁ j₂ h₂ n₂ e
    have p₁ : (N + j₁) % 2 = 0 := by
      by_contra hc
      exact n₁ (by rw [coeff_erfR_of_odd_add s N j₁ (by omega), zero_mul])
    have p₂ : (N + j₂) % 2 = 0 := by
      by_contra hc
      exact n₂ (by rw [coeff_erfR_of_odd_add s N j₂ (by omega), zero_mul])
    omega
  · intro k hk hne
    have hk' := Finset.mem_range.mp hk
    have h2 : ¬ 2 * k + 1 < N + 1 := by
      intro hc; exact hne (by rw [if_pos hc])
    have e1 : 2 * k + 1 - (N + 1) = 2 * k - N := by omega
    have e2 : 2 * k + 2 - (N + 1) = 2 * k - N + 1 := by omega
    have e3 : N + 1 - 1 - k = N - k := by omega
    have eN : 2 * (N - k) + (2 * k - N) = N := by omega
    have ht := erfModelTerm alt x k (2 * k - N) (N - k) (by omega)
    rw [eN] at ht
    rw [if_neg h2, e1, e2, e3, ht] at hne
    exact ⟨2 * k - N, Finset.mem_range.mpr (by omega), hne, by omega⟩
  · intro j hj hne
    have hj' := Finset.mem_range.mp hj
    have p : (N + j) % 2 = 0 := by
      by_contra hc
      exact hne (by rw [coeff_erfR_of_odd_add s N j (by omega), zero_mul])
    have h2 : ¬ 2 * ((N + j) / 2) + 1 < N + 1 := by omega
    have e1 : 2 * ((N + j) / 2) + 1 - (N + 1) = j := by omega
    have e2 : 2 * ((N + j) / 2) + 2 - (N + 1) = j + 1 := by omega
    have e3 : N + 1 - 1 - (N + j) / 2 = (N - j) / 2 := by omega
    have eN : 2 * ((N - j) / 2) + j = N := by omega
    have ht := erfModelTerm alt x ((N + j) / 2) j ((N - j) / 2) (by omega)
    rw [eN] at ht
    rw [if_neg h2, e1, e2, e3, ht]

/-- **`erf`/`erfi` closed form**: for every `E` with `E' = c · exp(∓y²)` the model's finite sum is the
`n`-th derivative of `E` (leaf `a = c exp(∓x²)`, order-0 leaf `E x`) -/
theorem iteratedDeriv_erf_model (alt : Bool) (c : ℝ) (E : ℝ → ℝ)
    (hE : ∀ y, HasDerivAt E (c * Real.exp ((if alt then -1 else 1) * (y * y))) y) (n : ℕ) (x : ℝ) :
    iteratedDeriv n E x
      = if n = 0 then E x else (c * Real.exp ((if alt then -1 else 1) * (x * x))) * erfPoly alt x n := by
  cases n with
  | zero => simp
  | succ N =>
    rw [if_neg (Nat.succ_ne_zero N), iteratedDeriv_erf_like _ c E hE N x, erfPoly_eq]

end AV
