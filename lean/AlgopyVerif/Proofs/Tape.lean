import Mathlib.Algebra.BigOperators.Ring.Finset
import Mathlib.Algebra.BigOperators.Intervals
import Mathlib.Tactic.Ring
import Mathlib.Tactic.LinearCombination
/-!
# The cell-level tape: the reverse sweep is the adjoint of the tangent sweep

Values and adjoints live in heaps `Nat → A` over a commutative ring `A` (for algopy:
`A = R[t]/(t^D)` per direction).  A tape is a list of instructions

* `comp c`  : a fresh destination cell computed from argument cells (`c.f`), with tangent map
  `c.df` and pullback `c.pb` (what a `pb_*` function adds to the argument adjoints);
* `write d s`: an in-place overwrite `cell d := cell s` (`Function.__setitem__` on one cell); the
  reverse step is the repaired `pb___setitem__`: save `bar d`, clear it, add the saved value to
  `bar s` — which is also right for `d = s`.

`tape_adjoint`: for every tape, heap, tangent and seed,
`⟨rev tape h seed, dh⟩ = ⟨seed, tan tape h dh⟩`.
-/
namespace AV.Tape
variable {A : Type} [CommRing A]

abbrev Heap (A : Type) := Nat → A

structure Comp (A : Type) where
  dst  : Nat
  args : List Nat
  f    : List A → A
  df   : List A → List A → A
  pb   : List A → A → List A

inductive Instr (A : Type)
  | comp  (c : Comp A)
  | write (dst src : Nat)

def upd (h : Heap A) (c : Nat) (v : A) : Heap A := fun i => if i = c then v else h i

/-- scatter-add a list of contributions onto the argument cells -/
def scatter (bar : Heap A) : List Nat → List A → Heap A
  | a :: as, v :: vs => scatter (upd bar a (bar a + v)) as vs
  | _, _ => bar

def fwd1 (h : Heap A) : Instr A → Heap A
  | .comp c => upd h c.dst (c.f (c.args.map h))
  | .write d s => upd h d (h s)

def tan1 (h dh : Heap A) : Instr A → Heap A
  | .comp c => upd dh c.dst (c.df (c.args.map h) (c.args.map dh))
  | .write d s => upd dh d (dh s)

/-- reverse of one instruction given the heap *before* it executed -/
def rev1 (h : Heap A) (bar : Heap A) : Instr A → Heap A
  | .comp c => scatter bar c.args (c.pb (c.args.map h) (bar c.dst))
  | .write d s =>
    let saved := bar d
    let b1 := upd bar d 0
    upd b1 s (b1 s + saved)

def fwd : List (Instr A) → Heap A → Heap A
  | [], h => h
  | i :: is, h => fwd is (fwd1 h i)

def tan : List (Instr A) → Heap A → Heap A → Heap A
  | [], _, dh => dh
  | i :: is, h, dh => tan is (fwd1 h i) (tan1 h dh i)

/-- full reverse sweep: seeds are the bars at the end; returns the bars at the start -/
def rev : List (Instr A) → Heap A → Heap A → Heap A
  | [], _, bar => bar
  | i :: is, h, bar => rev1 h (rev is (fwd1 h i) bar) i

/-- pairing over the first n cells -/
def pair (n : Nat) (u v : Heap A) : A := ∑ c ∈ Finset.range n, u c * v c

/-- local adjoint condition of a `Comp` (what each `pb_*` lemma must establish) -/
def Comp.Adj (c : Comp A) : Prop :=
  ∀ (vals tans : List A) (yb : A), vals.length = c.args.length → tans.length = c.args.length →
    (c.pb vals yb).length = c.args.length ∧
    ((c.pb vals yb).zip tans).foldl (fun s p => s + p.1 * p.2) 0 = yb * c.df vals tans

/-- well-formedness of one instruction: `comp` writes a fresh cell (tangent/adjoint there is 0) -/
def Instr.WF (n : Nat) (dh : Heap A) : Instr A → Prop
  | .comp c => c.Adj ∧ c.dst < n ∧ (∀ a ∈ c.args, a < n ∧ a ≠ c.dst) ∧ dh c.dst = 0
  | .write d s => d < n ∧ s < n

theorem pair_upd_right (n : Nat) (u v : Heap A) (c : Nat) (x : A) (hc : c < n) :
    pair n u (upd v c x) = pair n u v + u c * (x - v c) := by
  unfold pair upd
  have : ∀ i ∈ Finset.range n, u i * (if i = c then x else v i) = u i * v i + (if i = c then u c * (x - v c) else 0) := by
    intro i _; by_cases h : i = c <;> simp [h]; ring
  rw [Finset.sum_congr rfl this, Finset.sum_add_distrib, Finset.sum_ite_eq' (Finset.range n) c]
  simp [hc]

theorem pair_upd_left (n : Nat) (u v : Heap A) (c : Nat) (x : A) (hc : c < n) :
    pair n (upd u c x) v = pair n u v + (x - u c) * v c := by
  unfold pair upd
  have : ∀ i ∈ Finset.range n, (if i = c then x else u i) * v i = u i * v i + (if i = c then (x - u c) * v c else 0) := by
    intro i _; by_cases h : i = c <;> simp [h]; ring
  rw [Finset.sum_congr rfl this, Finset.sum_add_distrib, Finset.sum_ite_eq' (Finset.range n) c]
  simp [hc]

theorem foldl_pair_acc (l : List (A × A)) (s0 : A) :
    l.foldl (fun s p => s + p.1 * p.2) s0 = s0 + l.foldl (fun s p => s + p.1 * p.2) 0 := by
  induction l generalizing s0 with
  | nil => simp
  | cons x xs ihx => simp only [List.foldl_cons]; rw [ihx (s0 + x.1*x.2), ihx (0 + x.1*x.2)]; ring

theorem pair_scatter (n : Nat) (bar dh : Heap A) : ∀ (as : List Nat) (vs : List A),
    (∀ a ∈ as, a < n) → vs.length = as.length →
    pair n (scatter bar as vs) dh = pair n bar dh + ((vs.zip (as.map dh)).foldl (fun s p => s + p.1 * p.2) 0) := by
  intro as
  induction as generalizing bar with
  | nil => intro vs _ hl; cases vs <;> simp [scatter] at *
  | cons a as ih =>
    intro vs ha hl
    cases vs with
    | nil => simp at hl
    | cons v vs =>
      simp only [scatter]
      rw [ih _ vs (fun x hx => ha x (List.mem_cons_of_mem _ hx)) (by simpa using hl)]
      rw [pair_upd_left _ _ _ _ _ (ha a (List.mem_cons_self ..))]
      simp only [List.map_cons, List.zip_cons_cons, List.foldl_cons]
      rw [foldl_pair_acc _ (0 + v * dh a)]
      ring

/-- one-step adjoint identity -/
theorem step_adj (n : Nat) (h dh bar : Heap A) (i : Instr A) (hw : i.WF n dh) :
    pair n (rev1 h bar i) dh = pair n bar (tan1 h dh i) := by
  cases i with
  | comp c =>
    obtain ⟨hadj, hd, hargs, hz⟩ := hw
    simp only [rev1, tan1]
    have hA := hadj (c.args.map h) (c.args.map dh) (bar c.dst) (by simp) (by simp)
    rw [pair_scatter n bar dh c.args _ (fun a ha => (hargs a ha).1) hA.1, hA.2,
      pair_upd_right _ _ _ _ _ hd, hz]
    ring
  | write d s =>
    obtain ⟨hd, hs⟩ := hw
    simp only [rev1, tan1]
    rw [pair_upd_left _ _ _ _ _ hs, pair_upd_left _ _ _ _ _ hd, pair_upd_right _ _ _ _ _ hd]
    by_cases hds : s = d
    · subst hds; simp [upd]
    · simp [upd, hds]; ring

/-- well-formedness along the execution -/
def WF (n : Nat) : List (Instr A) → Heap A → Heap A → Prop
  | [], _, _ => True
  | i :: is, h, dh => i.WF n dh ∧ WF n is (fwd1 h i) (tan1 h dh i)

/-- **global adjoint theorem**: `⟨xbar, dx⟩ = ⟨ybar, dy⟩` for every tape, heap, tangent and seed -/
theorem tape_adjoint (n : Nat) : ∀ (is : List (Instr A)) (h dh bar : Heap A), WF n is h dh →
    pair n (rev is h bar) dh = pair n bar (tan is h dh) := by
  intro is
  induction is with
  | nil => intros; rfl
  | cons i is ih =>
    intro h dh bar hw
    simp only [rev, tan]
    rw [step_adj n h dh _ i hw.1, ih _ _ _ hw.2]

/-! ## local adjoint lemmas (each mirrors a `pb_*` formula; `A` is any commutative ring) -/

/-- unary operation whose tangent is multiplication by `g vals` (`g = f'(x)` in `A`) and whose pullback
is `xbar += ybar * g` — `_pb_exp` (`g = y`), `_pb_log` (`g = 1/x`), `_pb_sqrt` (`g = 1/(2y)`), `_pb_square`
(`g = 2x`), `_pb_reciprocal`, `_pb_sincos`, `_pb_tansec`, `_pb_pow_real`, the black/white family, … -/
def unaryComp (dst a : Nat) (f g : A → A) : Comp A where
  dst := dst
  args := [a]
  f := fun v => f (v.headD 0)
  df := fun v t => g (v.headD 0) * t.headD 0
  pb := fun v yb => [yb * g (v.headD 0)]

theorem unaryComp_adj (dst a : Nat) (f g : A → A) : (unaryComp dst a f g).Adj := by
  intro vals tans yb hv ht
  match vals, tans, hv, ht with
  | [v], [t], _, _ => simp [unaryComp]; ring

/-- `z = x + y`: `pb_add` -/
def addComp (dst a b : Nat) : Comp A where
  dst := dst
  args := [a, b]
  f := fun v => v.headD 0 + (v.tail.headD 0)
  df := fun _ t => t.headD 0 + (t.tail.headD 0)
  pb := fun _ yb => [yb, yb]

theorem addComp_adj (dst a b : Nat) : (addComp (A := A) dst a b).Adj := by
  intro vals tans yb hv ht
  match vals, tans, hv, ht with
  | [_, _], [t1, t2], _, _ => simp [addComp]; ring

/-- `z = x - y`: `pb_sub` -/
def subComp (dst a b : Nat) : Comp A where
  dst := dst
  args := [a, b]
  f := fun v => v.headD 0 - (v.tail.headD 0)
  df := fun _ t => t.headD 0 - (t.tail.headD 0)
  pb := fun _ yb => [yb, -yb]

theorem subComp_adj (dst a b : Nat) : (subComp (A := A) dst a b).Adj := by
  intro vals tans yb hv ht
  match vals, tans, hv, ht with
  | [_, _], [t1, t2], _, _ => simp [subComp]; ring

/-- `z = x * y`: `pb_mul` (`xbar += zbar*y`, `ybar += zbar*x`) -/
def mulComp (dst a b : Nat) : Comp A where
  dst := dst
  args := [a, b]
  f := fun v => v.headD 0 * (v.tail.headD 0)
  df := fun v t => t.headD 0 * (v.tail.headD 0) + v.headD 0 * (t.tail.headD 0)
  pb := fun v yb => [yb * (v.tail.headD 0), yb * v.headD 0]

theorem mulComp_adj (dst a b : Nat) : (mulComp (A := A) dst a b).Adj := by
  intro vals tans yb hv ht
  match vals, tans, hv, ht with
  | [v1, v2], [t1, t2], _, _ => simp [mulComp]; ring

/-- `z = x / y = x * yinv` with `yinv` a function of `y` such that `y * yinv y = 1`:
`pb_truediv` (`tmp = zbar/y; xbar += tmp; ybar -= tmp*z`) -/
def divComp (dst a b : Nat) (inv : A → A) : Comp A where
  dst := dst
  args := [a, b]
  f := fun v => v.headD 0 * inv (v.tail.headD 0)
  df := fun v t =>
    let x := v.headD 0; let y := v.tail.headD 0
    t.headD 0 * inv y - (x * inv y) * inv y * (t.tail.headD 0)
  pb := fun v yb =>
    let x := v.headD 0; let y := v.tail.headD 0
    let tmp := yb * inv y
    [tmp, -(tmp * (x * inv y))]

theorem divComp_adj (dst a b : Nat) (inv : A → A) : (divComp dst a b inv).Adj := by
  intro vals tans yb hv ht
  match vals, tans, hv, ht with
  | [v1, v2], [t1, t2], _, _ => simp [divComp]; ring

/-- reductions `y = Σ_i x_i` (`pb_sum`), any arity: every argument receives `ybar` -/
def sumComp (dst : Nat) (args : List Nat) : Comp A where
  dst := dst
  args := args
  f := fun v => v.sum
  df := fun _ t => t.sum
  pb := fun v yb => v.map fun _ => yb

theorem sumComp_adj (dst : Nat) (args : List Nat) : (sumComp (A := A) dst args).Adj := by
  intro vals tans yb hv ht
  refine ⟨by simp [sumComp, hv], ?_⟩
  simp only [sumComp]
  have hl : vals.length = tans.length := by rw [hv, ht]
  clear hv ht
  induction vals generalizing tans with
  | nil => cases tans <;> simp at hl ⊢
  | cons v vs ih =>
    cases tans with
    | nil => simp at hl
    | cons t ts =>
      simp only [List.map_cons, List.zip_cons_cons, List.foldl_cons, List.sum_cons]
      rw [foldl_pair_acc, ih ts (by simpa using hl)]
      ring

/-- multiplication by a constant of the ring (constant operands, `x * c`, `c * x`, `dot` with a plain array) -/
def scaleComp (dst a : Nat) (c : A) : Comp A := unaryComp dst a (fun x => c * x) (fun _ => c)

theorem scaleComp_adj (dst a : Nat) (c : A) : (scaleComp dst a c).Adj := unaryComp_adj dst a _ _

/-- copies into fresh cells (`clone`, non-view `reshape`, `getitem` of a copy) -/
def copyComp (dst a : Nat) : Comp A := unaryComp dst a (fun x => x) (fun _ => 1)

theorem copyComp_adj (dst a : Nat) : (copyComp (A := A) dst a).Adj := unaryComp_adj dst a _ _

/-- bilinear reductions `z = Σ_k x_k y_k` (`dot`, `trace` of a product, …) -/
def dotComp (dst : Nat) (xs ys : List Nat) : Comp A where
  dst := dst
  args := xs ++ ys
  f := fun v => ((v.take xs.length).zip (v.drop xs.length)).foldl (fun s p => s + p.1 * p.2) 0
  df := fun v t =>
    ((t.take xs.length).zip (v.drop xs.length)).foldl (fun s p => s + p.1 * p.2) 0
    + ((v.take xs.length).zip (t.drop xs.length)).foldl (fun s p => s + p.1 * p.2) 0
  pb := fun v yb => ((v.drop xs.length).map fun y => yb * y) ++ ((v.take xs.length).map fun x => yb * x)

theorem foldl_pair_append (l1 l2 : List (A × A)) :
    (l1 ++ l2).foldl (fun s p => s + p.1 * p.2) 0
      = l1.foldl (fun s p => s + p.1 * p.2) 0 + l2.foldl (fun s p => s + p.1 * p.2) 0 := by
  rw [List.foldl_append, foldl_pair_acc]

theorem foldl_pair_scale (yb : A) (l1 l2 : List A) :
    ((l1.map fun y => yb * y).zip l2).foldl (fun s p => s + p.1 * p.2) 0
      = yb * (l2.zip l1).foldl (fun s p => s + p.1 * p.2) 0 := by
  induction l1 generalizing l2 with
  | nil => simp
  | cons a as ih =>
    cases l2 with
    | nil => simp
    | cons b bs =>
      simp only [List.map_cons, List.zip_cons_cons, List.foldl_cons]
      rw [foldl_pair_acc, foldl_pair_acc (bs.zip as), ih bs]
      ring

theorem foldl_pair_swap (l1 l2 : List A) :
    (l1.zip l2).foldl (fun s p => s + p.1 * p.2) 0 = (l2.zip l1).foldl (fun s p => s + p.1 * p.2) 0 := by
  induction l1 generalizing l2 with
  | nil => simp
  | cons a as ih =>
    cases l2 with
    | nil => simp
    | cons b bs =>
      simp only [List.zip_cons_cons, List.foldl_cons]
      rw [foldl_pair_acc, foldl_pair_acc (bs.zip as), ih bs]
      ring

theorem dotComp_adj (dst : Nat) (xs ys : List Nat) (hl : xs.length = ys.length) : (dotComp (A := A) dst xs ys).Adj := by
  intro vals tans yb hv ht
  simp only [dotComp, List.length_append] at hv ht ⊢
  refine ⟨by simp; omega, ?_⟩
  have h1 : ((vals.drop xs.length).map fun y => yb * y).length = (tans.take xs.length).length := by
    simp; omega
  conv_lhs => rw [← List.take_append_drop xs.length tans]
  rw [List.zip_append h1, foldl_pair_append, foldl_pair_scale, foldl_pair_scale,
    foldl_pair_swap (List.drop xs.length tans)]
  ring

end AV.Tape
