import Mathlib.Analysis.SpecialFunctions.Log.Basic
import Mathlib.Data.Sign.Basic
/-!
# `logdet` through the pivoted LU factors

`UTPM.logdet` returns `log(c) + Σ log|u_i|` with `c = sign(P) · ∏ sign(u_i)` (a constant series) and `u_i` the
diagonal of `U`.  Pointwise in `t` this is `log(sign(P) · ∏ u_i) = log(det A)` (`det_through_lu`).
-/
open Finset

namespace AV

theorem sign_mul_abs' (x : ℝ) : (SignType.sign x : ℝ) * |x| = x := by
  rcases lt_trichotomy x 0 with h | h | h
  · simp [sign_neg h, abs_of_neg h]
  · simp [h]
  · simp [sign_pos h, abs_of_pos h]

theorem prod_sign_mul_abs {ι : Type} (s : Finset ι) (u : ι → ℝ) :
    (∏ i ∈ s, (SignType.sign (u i) : ℝ)) * ∏ i ∈ s, |u i| = ∏ i ∈ s, u i := by
  rw [← prod_mul_distrib]
  exact prod_congr rfl fun i _ => sign_mul_abs' (u i)

/-- the formula of `UTPM.logdet` -/
theorem logdet_formula {ι : Type} (s : Finset ι) (sg : ℝ) (hsg : sg ≠ 0) (u : ι → ℝ) (hu : ∀ i ∈ s, u i ≠ 0) :
    Real.log (sg * ∏ i ∈ s, u i)
      = Real.log (sg * ∏ i ∈ s, (SignType.sign (u i) : ℝ)) + ∑ i ∈ s, Real.log |u i| := by
  rw [← prod_sign_mul_abs s u, ← mul_assoc]
  have hc : sg * ∏ i ∈ s, (SignType.sign (u i) : ℝ) ≠ 0 := by
    refine mul_ne_zero hsg (prod_ne_zero_iff.mpr fun i hi => ?_)
    have := hu i hi
    rcases lt_or_gt_of_ne this with h | h
    · simp [sign_neg h]
    · simp [sign_pos h]
  have ha : ∏ i ∈ s, |u i| ≠ 0 := prod_ne_zero_iff.mpr fun i hi => abs_ne_zero.mpr (hu i hi)
  rw [Real.log_mul hc ha, Real.log_prod (fun i hi => abs_ne_zero.mpr (hu i hi))]

end AV
