import AlgopyVerif.Proofs.Recurrence
import Mathlib.Analysis.Calculus.IteratedDeriv.Lemmas
import Mathlib.Analysis.Calculus.Deriv.Polynomial
import Mathlib.Analysis.Calculus.ContDiff.Polynomial
import Mathlib.Analysis.Calculus.ContDiff.Deriv
import Mathlib.Algebra.BigOperators.Field
import Mathlib.Tactic.LinearCombination
/-!
# The analytic bridge: Taylor coefficients at 0 of smooth germs

`tc f n = f⁽ⁿ⁾(0) / n!`.  `tc_deriv`, `tc_mul_at` (Leibniz), `tc_poly`, `tc_congr`
(germ invariance).  With these, a smooth `g` that satisfies a polynomial first-order
differential identity has Taylor coefficients obeying the same recurrence as the model,
hence equals the model by strong induction.
-/
open Polynomial Filter Topology
open scoped ContDiff

namespace AV

/-- d-th Taylor coefficient at 0 -/
noncomputable def tc (f : ℝ → ℝ) (n : ℕ) : ℝ := iteratedDeriv n f 0 / (n.factorial : ℝ)

/-- smooth germ at 0 -/
def Smooth0 (f : ℝ → ℝ) : Prop := ContDiffAt ℝ ∞ f 0

theorem tc_zero (f : ℝ → ℝ) : tc f 0 = f 0 := by simp [tc]

theorem tc_deriv (f : ℝ → ℝ) (n : ℕ) : tc (deriv f) n = ((n + 1 : ℕ) : ℝ) * tc f (n + 1) := by
  unfold tc
  rw [iteratedDeriv_succ', Nat.factorial_succ]
  have : ((n.factorial : ℕ) : ℝ) ≠ 0 := by exact_mod_cast Nat.factorial_ne_zero n
  have h2 : ((n + 1 : ℕ) : ℝ) ≠ 0 := by exact_mod_cast Nat.succ_ne_zero n
  push_cast
  field_simp

theorem tc_congr {f g : ℝ → ℝ} (h : f =ᶠ[𝓝 0] g) (n : ℕ) : tc f n = tc g n := by
  unfold tc
  rw [h.iteratedDeriv_eq n]

theorem Smooth0.deriv {f : ℝ → ℝ} (hf : Smooth0 f) : Smooth0 (deriv f) :=
  ContDiffAt.derivWithin hf (by simp)

theorem Smooth0.congr {f g : ℝ → ℝ} (hf : Smooth0 f) (h : g =ᶠ[𝓝 0] f) : Smooth0 g :=
  ContDiffAt.congr_of_eventuallyEq hf h

theorem tc_mul_at {f g : ℝ → ℝ} (hf : Smooth0 f) (hg : Smooth0 g) (n : ℕ) :
    tc (f * g) n = ∑ i ∈ Finset.range (n + 1), tc f i * tc g (n - i) := by
  unfold tc
  rw [iteratedDeriv_mul (hf.of_le (by exact_mod_cast le_top)) (hg.of_le (by exact_mod_cast le_top)),
    Finset.sum_div]
  apply Finset.sum_congr rfl
  intro i hi
  have hi' : i ≤ n := Nat.lt_succ_iff.mp (Finset.mem_range.mp hi)
  have h1 : ((i.factorial : ℕ) : ℝ) ≠ 0 := by exact_mod_cast Nat.factorial_ne_zero i
  have h2 : (((n - i).factorial : ℕ) : ℝ) ≠ 0 := by exact_mod_cast Nat.factorial_ne_zero _
  have h3 : ((n.factorial : ℕ) : ℝ) ≠ 0 := by exact_mod_cast Nat.factorial_ne_zero _
  have hc : (n.choose i : ℝ) * (i.factorial : ℝ) * ((n - i).factorial : ℝ) = (n.factorial : ℝ) := by
    exact_mod_cast Nat.choose_mul_factorial_mul_factorial hi'
  field_simp
  linear_combination (iteratedDeriv i f 0 * iteratedDeriv (n - i) g 0) * hc

theorem tc_poly (p : ℝ[X]) (n : ℕ) : tc (fun t => p.eval t) n = p.coeff n := by
  unfold tc
  have h : ∀ n (q : ℝ[X]), iteratedDeriv n (fun t => q.eval t) = fun t => (derivative^[n] q).eval t := by
    intro n
    induction n with
    | zero => intro q; simp
    | succ n ih =>
      intro q
      rw [iteratedDeriv_succ']
      have : deriv (fun t => q.eval t) = fun t => (derivative q).eval t := by
        ext t; exact Polynomial.deriv q
      rw [this, ih, Function.iterate_succ_apply]
  rw [h]
  simp only
  rw [← coeff_zero_eq_eval_zero, coeff_iterate_derivative]
  have h3 : ((n.factorial : ℕ) : ℝ) ≠ 0 := by exact_mod_cast Nat.factorial_ne_zero _
  simp [Nat.descFactorial_self]
  field_simp

theorem smooth0_poly (p : ℝ[X]) : Smooth0 (fun t => p.eval t) := by
  have : ContDiff ℝ ∞ (fun t => p.eval t) := by simpa using p.contDiff_aeval (𝕜 := ℝ) ∞
  exact this.contDiffAt

/-- the input curve `x(t) = Σ x_k t^k` -/
noncomputable def polyOf (x : List ℝ) : ℝ[X] := ∑ i ∈ Finset.range x.length, C (x.getD i 0) * X ^ i

theorem polyOf_coeff (x : List ℝ) (k : ℕ) : (polyOf x).coeff k = co x k := by
  unfold polyOf co
  simp only [finsetSum_coeff, coeff_C_mul, coeff_X_pow]
  by_cases hk : k < x.length
  · rw [Finset.sum_eq_single k]
    · simp
    · intro b _ hb; simp [Ne.symm hb]
    · intro h; exact absurd (Finset.mem_range.mpr hk) h
  · rw [Finset.sum_eq_zero]
    · rw [List.getD_eq_getElem?_getD, List.getElem?_eq_none (not_lt.mp hk)]; rfl
    · intro i hi
      have : i < x.length := Finset.mem_range.mp hi
      have : k ≠ i := by omega
      simp [this]

/-- `x̂(t)`: evaluation of the input curve -/
noncomputable def curve (x : List ℝ) : ℝ → ℝ := fun t => (polyOf x).eval t

theorem curve_zero (x : List ℝ) : curve x 0 = co x 0 := by
  unfold curve
  rw [← coeff_zero_eq_eval_zero, polyOf_coeff]

theorem smooth0_curve (x : List ℝ) : Smooth0 (curve x) := smooth0_poly _

theorem tc_curve (x : List ℝ) (n : ℕ) : tc (curve x) n = co x n := by
  unfold curve; rw [tc_poly, polyOf_coeff]

theorem deriv_curve (x : List ℝ) : deriv (curve x) = fun t => (derivative (polyOf x)).eval t := by
  ext t; exact Polynomial.deriv _

theorem tc_deriv_curve (x : List ℝ) (n : ℕ) : tc (deriv (curve x)) n = ((n + 1 : ℕ) : ℝ) * co x (n+1) := by
  rw [tc_deriv, tc_curve]

theorem hasDerivAt_curve (x : List ℝ) (t : ℝ) : HasDerivAt (curve x) (deriv (curve x) t) t := by
  rw [deriv_curve]; exact (polyOf x).hasDerivAt t

/-- Pattern A: if `y' = x̂' · w` near 0 then `(d+1) y_{d+1} = Σ (i+1) x_{i+1} w_{d-i}` -/
theorem tc_of_deriv_eq_curve_mul {y w : ℝ → ℝ} (x : List ℝ) (hw : Smooth0 w)
    (h : deriv y =ᶠ[𝓝 0] deriv (curve x) * w) (d : ℕ) :
    ((d + 1 : ℕ) : ℝ) * tc y (d + 1)
      = ∑ i ∈ Finset.range (d + 1), ((1 + i : ℕ) : ℝ) * co x (1 + i) * tc w (d - i) := by
  rw [← tc_deriv, tc_congr h, tc_mul_at (smooth0_curve x).deriv hw]
  apply Finset.sum_congr rfl
  intro i _
  rw [tc_deriv_curve, Nat.add_comm i 1]

/-- Pattern B: if `y' · w = x̂'` near 0 then `Σ_{i≤d} (i+1) y_{i+1} w_{d-i} = (d+1) x_{d+1}` -/
theorem tc_of_deriv_mul_eq_curve {y w : ℝ → ℝ} (x : List ℝ) (hy : Smooth0 y) (hw : Smooth0 w)
    (h : deriv y * w =ᶠ[𝓝 0] deriv (curve x)) (d : ℕ) :
    ∑ i ∈ Finset.range (d + 1), ((i + 1 : ℕ) : ℝ) * tc y (i + 1) * tc w (d - i)
      = ((d + 1 : ℕ) : ℝ) * co x (d + 1) := by
  rw [← tc_deriv_curve, ← tc_congr h, tc_mul_at hy.deriv hw]
  apply Finset.sum_congr rfl
  intro i _
  rw [tc_deriv]

end AV
