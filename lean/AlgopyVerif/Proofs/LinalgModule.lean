import AlgopyVerif.Proofs.Linalg
import Mathlib.Algebra.Module.Defs
import Mathlib.Algebra.Module.BigOperators
import Mathlib.Data.Matrix.Mul
/-!
# `_solve` with a right-hand side that is not in the coefficient ring (rectangular `n × k` right-hand sides)

The recursion of `solveM` (`Model/Linalg.lean`, `algorithms.py:1420-1452`) with the right-hand side and the solution in a left
module `M` over the ring `R` of the matrix coefficients: `y_d = A_0^{-1} • (b_d - Σ_{k=1}^{d} A_k • y_{d-k})`.  For `M = R` this is
`solveM` itself (`solveMod_self`), which is what the driver runs (its `Mat` type multiplies `n × n` by `n × k`).
-/
open Finset
namespace AV
section
variable {R M : Type} [Ring R] [AddCommGroup M] [Module R M]

def coMd (x : List M) (k : Nat) : M := x.getD k 0

def solveStepMod (a : List R) (a0inv : R) (b : List M) (acc : List M) : M :=
  let d := acc.length
  a0inv • (coMd b d - sumRange 1 (d+1) fun k => coR a k • coMd acc (d-k))
def solveMod (a : List R) (a0inv : R) (b : List M) : List M := build (solveStepMod a a0inv b) b.length

theorem coMd_build (step : List M → M) (n d : Nat) (h : d < n) : coMd (build step n) d = step (build step d) :=
  build_getD step n d h 0

theorem coMd_build_prefix (step : List M → M) (n d k : Nat) (hk : k < d) (hd : d ≤ n) :
    coMd (build step d) k = coMd (build step n) k := build_getD_prefix step n d k hk hd 0

theorem solveMod_co (a : List R) (a0inv : R) (b : List M) (d : Nat) (h : d < b.length) :
    coMd (solveMod a a0inv b) d
      = a0inv • (coMd b d - ∑ k ∈ range d, coR a (1+k) • coMd (solveMod a a0inv b) (d - 1 - k)) := by
  conv_lhs => unfold solveMod
  rw [coMd_build _ _ _ h, solveStepMod]
  simp only [build_length]
  rw [sumRange_eq]
  simp only [Nat.add_sub_cancel]
  congr 2
  apply sum_congr rfl
  intro k hk
  have := mem_range.mp hk
  unfold solveMod
  rw [coMd_build_prefix _ b.length d (d-(1+k)) (by omega) (by omega)]
  congr 2
  omega

/-- **`A(t) • X(t) = B(t)` modulo `t^D`** for a right-hand side in any left module, given `A_0 · solve(A_0, ·) = id` -/
theorem solveMod_spec (a : List R) (a0inv : R) (b : List M) (h0 : coR a 0 * a0inv = 1) (d : Nat) (h : d < b.length) :
    ∑ k ∈ range (d+1), coR a k • coMd (solveMod a a0inv b) (d-k) = coMd b d := by
  rw [sum_range_succ', Nat.sub_zero, solveMod_co a a0inv b d h]
  have e : ∑ k ∈ range d, coR a (k+1) • coMd (solveMod a a0inv b) (d - (k+1))
      = ∑ k ∈ range d, coR a (1+k) • coMd (solveMod a a0inv b) (d - 1 - k) := by
    apply sum_congr rfl
    intro k _
    rw [Nat.add_comm k 1]
    congr 2
    omega
  rw [e]
  set S := ∑ k ∈ range d, coR a (1+k) • coMd (solveMod a a0inv b) (d - 1 - k)
  rw [smul_smul, h0, one_smul]
  abel

/-- uniqueness: two solutions of `A(t) • X(t) = B(t)` modulo `t^D` have the same coefficients, given a left inverse of `A_0` -/
theorem solveMod_unique (a : List R) (a0inv : R) (h0' : a0inv * coR a 0 = 1) (b z w : List M) (D : ℕ)
    (hz : ∀ d, d < D → ∑ k ∈ range (d+1), coR a k • coMd z (d-k) = coMd b d)
    (hw : ∀ d, d < D → ∑ k ∈ range (d+1), coR a k • coMd w (d-k) = coMd b d) (d : ℕ) (hd : d < D) :
    coMd z d = coMd w d := by
  induction d using Nat.strong_induction_on with
  | _ d ih =>
    have h1 := hz d hd
    have h2 := hw d hd
    rw [sum_range_succ', Nat.sub_zero] at h1 h2
    have e : ∑ k ∈ range d, coR a (k+1) • coMd z (d - (k+1)) = ∑ k ∈ range d, coR a (k+1) • coMd w (d - (k+1)) := by
      apply sum_congr rfl
      intro k hk
      have := mem_range.mp hk
      rw [ih (d - (k+1)) (by omega) (by omega)]
    have h3 : coR a 0 • coMd z d = coR a 0 • coMd w d := by
      have := h1.trans h2.symm
      rw [e] at this
      exact add_left_cancel this
    have := congrArg (fun m => a0inv • m) h3
    simpa [smul_smul, h0'] using this

/-- for a right-hand side in the ring itself the module recursion is the model's `solveM` -/
theorem solveMod_self (a : List R) (a0inv : R) (b : List R) : solveMod a a0inv b = solveM a a0inv b := by
  unfold solveMod solveM
  congr 1
end

section
open Matrix
variable {K : Type} [Ring K] {n k : ℕ}

/-- left multiplication of `n × k` matrices by `n × n` matrices as a module structure -/
@[reducible] def rectModule : Module (Matrix (Fin n) (Fin n) K) (Matrix (Fin n) (Fin k) K) where
  smul A B := A * B
  one_smul B := Matrix.one_mul B
  mul_smul A A' B := Matrix.mul_assoc A A' B
  smul_zero A := Matrix.mul_zero A
  smul_add A B C := Matrix.mul_add A B C
  add_smul A A' B := Matrix.add_mul A A' B
  zero_smul B := Matrix.zero_mul B

end
end AV

namespace AV
section
open Matrix Finset
variable {K : Type} [Ring K] {n k : ℕ}

/-- `_solve` with an `n × k` right-hand side: the module recursion for left multiplication of matrices -/
def solveRect (A : List (Matrix (Fin n) (Fin n) K)) (A0inv : Matrix (Fin n) (Fin n) K) (B : List (Matrix (Fin n) (Fin k) K)) :
    List (Matrix (Fin n) (Fin k) K) :=
  letI := rectModule (K := K) (n := n) (k := k)
  solveMod A A0inv B

theorem solveRect_length (A : List (Matrix (Fin n) (Fin n) K)) (A0inv : Matrix (Fin n) (Fin n) K) (B : List (Matrix (Fin n) (Fin k) K)) :
    (solveRect A A0inv B).length = B.length := by
  unfold solveRect solveMod
  exact build_length _ _

theorem solveRect_spec (A : List (Matrix (Fin n) (Fin n) K)) (A0inv : Matrix (Fin n) (Fin n) K) (B : List (Matrix (Fin n) (Fin k) K))
    (h0 : coR A 0 * A0inv = 1) (d : Nat) (h : d < B.length) :
    ∑ c ∈ range (d+1), coR A c * coMd (solveRect A A0inv B) (d-c) = coMd B d := by
  let _ := rectModule (K := K) (n := n) (k := k)
  exact solveMod_spec A A0inv B h0 d h

theorem solveRect_unique (A : List (Matrix (Fin n) (Fin n) K)) (A0inv : Matrix (Fin n) (Fin n) K) (h0' : A0inv * coR A 0 = 1)
    (B Z W : List (Matrix (Fin n) (Fin k) K)) (D : ℕ)
    (hz : ∀ d, d < D → ∑ c ∈ range (d+1), coR A c * coMd Z (d-c) = coMd B d)
    (hw : ∀ d, d < D → ∑ c ∈ range (d+1), coR A c * coMd W (d-c) = coMd B d) (d : ℕ) (hd : d < D) :
    coMd Z d = coMd W d := by
  let _ := rectModule (K := K) (n := n) (k := k)
  exact solveMod_unique A A0inv h0' B Z W D hz hw d hd

/-- for a square right-hand side this is the model's `solveM` (the definition the driver runs on the code's data) -/
theorem solveRect_square (A : List (Matrix (Fin n) (Fin n) K)) (A0inv : Matrix (Fin n) (Fin n) K) (B : List (Matrix (Fin n) (Fin n) K)) :
    solveRect A A0inv B = solveM A A0inv B := by
  unfold solveRect solveMod solveM
  rfl
end
end AV
