import AlgopyVerif.Model.Drivers
import Mathlib.Algebra.BigOperators.Ring.Finset
import Mathlib.Algebra.BigOperators.Pi
import Mathlib.Algebra.BigOperators.Group.Finset.Sigma
import Mathlib.Algebra.Field.Basic
import Mathlib.Algebra.CharP.Defs
import Mathlib.Algebra.CharZero.Defs
import Mathlib.Tactic.Ring
import Mathlib.Tactic.FieldSimp
import Mathlib.Tactic.LinearCombination
/-!
# Extraction algebra of the forward drivers: second-order coefficients along the seeded
directions determine the Hessian and Hessian-vector products.
-/
open Finset
namespace AV
variable {K : Type} [Field K] [CharZero K] {N : ℕ}

/-- bilinear form of `H` -/
def bil (H : Fin N → Fin N → K) (u w : Fin N → K) : K := ∑ i, ∑ j, u i * H i j * w j

/-- second Taylor coefficient of a function with Hessian `H` along direction `v`: `½ vᵀ H v` -/
noncomputable def quad (H : Fin N → Fin N → K) (v : Fin N → K) : K := bil H v v / 2

theorem bil_add_left (H : Fin N → Fin N → K) (u u' w : Fin N → K) : bil H (u + u') w = bil H u w + bil H u' w := by
  unfold bil
  simp only [Pi.add_apply, add_mul, sum_add_distrib]

theorem bil_add_right (H : Fin N → Fin N → K) (u w w' : Fin N → K) : bil H u (w + w') = bil H u w + bil H u w' := by
  unfold bil
  simp only [Pi.add_apply, mul_add, sum_add_distrib]

theorem bil_symm (H : Fin N → Fin N → K) (hH : ∀ i j, H i j = H j i) (u w : Fin N → K) : bil H u w = bil H w u := by
  unfold bil
  rw [Finset.sum_comm]
  apply sum_congr rfl; intro i _
  apply sum_congr rfl; intro j _
  rw [hH j i]; ring

theorem bil_single_left (H : Fin N → Fin N → K) (n : Fin N) (w : Fin N → K) :
    bil H (Pi.single n 1) w = ∑ j, H n j * w j := by
  unfold bil
  rw [sum_eq_single n]
  · simp
  · intro b _ hb; simp [Pi.single_apply, hb]
  · intro h; exact absurd (mem_univ n) h

theorem bil_single_single (H : Fin N → Fin N → K) (n m : Fin N) :
    bil H (Pi.single n 1) (Pi.single m 1) = H n m := by
  rw [bil_single_left, sum_eq_single m]
  · simp
  · intro b _ hb; simp [Pi.single_apply, hb]
  · intro h; exact absurd (mem_univ m) h

/-- diagonal entries: `2 c₂(e_n) = H_nn` -/
theorem quad_diag (H : Fin N → Fin N → K) (n : Fin N) : 2 * quad H (Pi.single n 1) = H n n := by
  unfold quad
  rw [bil_single_single]
  field_simp

/-- off-diagonal entries: `c₂(e_n + e_m) - c₂(e_n) - c₂(e_m) = H_nm` for symmetric `H` -/
theorem quad_offdiag (H : Fin N → Fin N → K) (hH : ∀ i j, H i j = H j i) (n m : Fin N) :
    quad H (Pi.single n 1 + Pi.single m 1) - quad H (Pi.single n 1) - quad H (Pi.single m 1) = H n m := by
  unfold quad
  rw [bil_add_left, bil_add_right, bil_add_right, bil_single_single, bil_single_single, bil_single_single,
    bil_single_single, hH m n]
  field_simp
  ring

/-- Hessian-vector product: `-c₂(e_n) + c₂(v + e_n) - c₂(v) = (H v)_n` for symmetric `H` -/
theorem quad_hess_vec (H : Fin N → Fin N → K) (hH : ∀ i j, H i j = H j i) (v : Fin N → K) (n : Fin N) :
    -quad H (Pi.single n 1) + quad H (v + Pi.single n 1) - quad H v = ∑ j, H n j * v j := by
  unfold quad
  rw [bil_add_left, bil_add_right, bil_add_right, bil_symm H hH v (Pi.single n 1), ← bil_single_left H n v]
  field_simp
  ring

end AV
