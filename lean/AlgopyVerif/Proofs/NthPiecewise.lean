import AlgopyVerif.Proofs.NthDeriv
import Mathlib.Algebra.Order.Floor.Ring
import Mathlib.Topology.Algebra.Order.Floor
/-!
# n-th derivatives of the piecewise-constant / piecewise-linear functions away from their jumps and kinks
-/
open Filter Topology Set

namespace AV

/-- a function that is constant near `x` has all higher derivatives `0` there -/
theorem iteratedDeriv_of_locally_const (f : ℝ → ℝ) (x : ℝ) (h : f =ᶠ[𝓝 x] fun _ => f x) (n : ℕ) :
    iteratedDeriv n f x = dStep (f x) n := by
  rw [h.iteratedDeriv_eq n]
  cases n with
  | zero => simp [dStep]
  | succ n => simp [dStep, iteratedDeriv_const]

/-- a function that is `a · y + b` near `x` -/
theorem iteratedDeriv_of_locally_affine (f : ℝ → ℝ) (a b x : ℝ) (h : f =ᶠ[𝓝 x] fun y => a * y + b) (n : ℕ) :
    iteratedDeriv n f x = match n with | 0 => f x | 1 => a | _ => 0 := by
  have h0 : f x = a * x + b := h.self_of_nhds
  rw [h.iteratedDeriv_eq n]
  match n with
  | 0 => simp [h0]
  | 1 =>
    rw [iteratedDeriv_one]
    have : HasDerivAt (fun y => a * y + b) a x := by
      simpa using ((hasDerivAt_id x).const_mul a).add_const b
    exact this.deriv
  | n + 2 =>
    rw [iteratedDeriv_succ', iteratedDeriv_succ']
    have hd : deriv (fun y => a * y + b) = fun _ => a := by
      funext y
      have : HasDerivAt (fun y => a * y + b) a y := by
        simpa using ((hasDerivAt_id y).const_mul a).add_const b
      exact this.deriv
    rw [hd]
    have hd2 : deriv (fun _ : ℝ => a) = fun _ => 0 := by funext y; simp
    rw [hd2]
    simp [iteratedDeriv_const]

theorem floor_locally_const (x : ℝ) (hx : ∀ k : ℤ, x ≠ k) :
    (fun y : ℝ => (⌊y⌋ : ℝ)) =ᶠ[𝓝 x] fun _ => (⌊x⌋ : ℝ) := by
  have hlt : (⌊x⌋ : ℝ) < x := lt_of_le_of_ne (Int.floor_le x) (fun e => hx ⌊x⌋ e.symm)
  have hgt : x < (⌊x⌋ : ℝ) + 1 := Int.lt_floor_add_one x
  filter_upwards [Ioo_mem_nhds hlt hgt] with y hy
  have : ⌊y⌋ = ⌊x⌋ := Int.floor_eq_iff.mpr ⟨hy.1.le, hy.2⟩
  rw [this]

theorem ceil_locally_const (x : ℝ) (hx : ∀ k : ℤ, x ≠ k) :
    (fun y : ℝ => (⌈y⌉ : ℝ)) =ᶠ[𝓝 x] fun _ => (⌈x⌉ : ℝ) := by
  have hlt : x < (⌈x⌉ : ℝ) := lt_of_le_of_ne (Int.le_ceil x) (fun e => hx ⌈x⌉ e)
  have hgt : (⌈x⌉ : ℝ) - 1 < x := by have := Int.ceil_lt_add_one x; linarith
  filter_upwards [Ioo_mem_nhds hgt hlt] with y hy
  have : ⌈y⌉ = ⌈x⌉ := Int.ceil_eq_iff.mpr ⟨hy.1, hy.2.le⟩
  rw [this]

theorem sign_locally_const (x : ℝ) (hx : x ≠ 0) :
    (fun y : ℝ => (SignType.sign y : ℝ)) =ᶠ[𝓝 x] fun _ => (SignType.sign x : ℝ) := by
  rcases lt_or_gt_of_ne hx with hneg | hpos
  · filter_upwards [gt_mem_nhds hneg] with y hy
    simp [sign_neg hy, sign_neg hneg]
  · filter_upwards [lt_mem_nhds hpos] with y hy
    simp [sign_pos hy, sign_pos hpos]

theorem abs_locally_affine (x : ℝ) (hx : x ≠ 0) :
    (fun y : ℝ => |y|) =ᶠ[𝓝 x] fun y => (SignType.sign x : ℝ) * y + 0 := by
  rcases lt_or_gt_of_ne hx with hneg | hpos
  · filter_upwards [gt_mem_nhds hneg] with y hy
    simp [sign_neg hneg, abs_of_neg hy]
  · filter_upwards [lt_mem_nhds hpos] with y hy
    simp [sign_pos hpos, abs_of_pos hy]

end AV

namespace AV
open Filter Topology

/-- `clip` strictly inside the interval is the identity near `x` -/
theorem clip_locally_id (lo hi x : ℝ) (h1 : lo < x) (h2 : x < hi) :
    (fun y : ℝ => min (max y lo) hi) =ᶠ[𝓝 x] fun y => 1 * y + 0 := by
  filter_upwards [Ioo_mem_nhds h1 h2] with y hy
  rw [max_eq_left (le_of_lt hy.1), min_eq_left (le_of_lt hy.2)]; ring

/-- `clip` strictly outside the interval is constant near `x` -/
theorem clip_locally_const_lo (lo hi x : ℝ) (h1 : x < lo) :
    (fun y : ℝ => min (max y lo) hi) =ᶠ[𝓝 x] fun _ => min (max x lo) hi := by
  filter_upwards [Iio_mem_nhds h1] with y hy
  rw [max_eq_right (le_of_lt hy), max_eq_right (le_of_lt h1)]

theorem clip_locally_const_hi (lo hi x : ℝ) (hlh : lo ≤ hi) (h2 : hi < x) :
    (fun y : ℝ => min (max y lo) hi) =ᶠ[𝓝 x] fun _ => min (max x lo) hi := by
  filter_upwards [Ioi_mem_nhds h2] with y hy
  have hy' : hi < y := hy
  rw [max_eq_left (by linarith), max_eq_left (by linarith), min_eq_right (le_of_lt hy'), min_eq_right (le_of_lt h2)]

/-- `rint` / round-to-nearest away from the half-integers: `⌊y + 1/2⌋` is constant near `x` -/
theorem round_locally_const (x : ℝ) (hx : ∀ k : ℤ, x + 1 / 2 ≠ k) :
    (fun y : ℝ => (⌊y + 1 / 2⌋ : ℝ)) =ᶠ[𝓝 x] fun _ => (⌊x + 1 / 2⌋ : ℝ) := by
  have h := floor_locally_const (x + 1 / 2) hx
  have hc : Tendsto (fun y : ℝ => y + 1 / 2) (𝓝 x) (𝓝 (x + 1 / 2)) :=
    (continuous_id.add continuous_const).tendsto x
  exact hc.eventually h

end AV
