import AlgopyVerif.Proofs.Factor
import Mathlib.Tactic.LinearCombination
import Mathlib.Tactic.Ring
/-!
# One order of the symmetric eigendecomposition (`UTPM._eigh1`)

`_eigh1` solves the *relaxed* problem `Qᵀ A Q = Λ` (block diagonal in the clusters of equal eigenvalues of
`A₀`), `QᵀQ = I`.  Given the coefficients below order `d`, the step

    G = Σ_{0<k<d} Q_kᵀ Q_{d-k},  S = -G/2,  F = Σ_{i+j+k=d, i,j,k<d} Q_iᵀ A_j Q_k,
    K = F + Q₀ᵀ A_d Q₀ + S Λ₀ + Λ₀ S,  Λ_d = K on the blocks,  X = K ∘ H,  Q_d = Q₀ (X + S)

(`H_rc = 1/(λ_c - λ_r)` across blocks, `0` inside) gives `(QᵀQ)_d = 0` and `(QᵀAQ)_d = Λ_d`.
For distinct eigenvalues the blocks are singletons and `Λ_d` is diagonal.
-/
open Matrix Finset

namespace AV.Factor
variable {n : Type} [Fintype n] [DecidableEq n] {K : Type} [Field K] [CharZero K]

/-- coefficient `d` of a triple product: all index triples with `i + j + k = d` -/
def tripleAll (X Y Z : ℕ → Matrix n n K) (d : ℕ) : Matrix n n K :=
  ∑ i ∈ range (d + 1), ∑ j ∈ range (d + 1), ∑ k ∈ range (d + 1), if i + j + k = d then X i * Y j * Z k else 0

/-- the part that does not involve order `d` of any factor (`truncated_triple_dot`) -/
def tripleLow (X Y Z : ℕ → Matrix n n K) (d : ℕ) : Matrix n n K :=
  ∑ i ∈ range d, ∑ j ∈ range d, ∑ k ∈ range d, if i + j + k = d then X i * Y j * Z k else 0

theorem tripleAll_split (X Y Z : ℕ → Matrix n n K) (d : ℕ) (hd : 1 ≤ d) :
    tripleAll X Y Z d = tripleLow X Y Z d + X d * Y 0 * Z 0 + X 0 * Y d * Z 0 + X 0 * Y 0 * Z d := by
  unfold tripleAll tripleLow
  have h0 : 0 ∈ range d := mem_range.mpr (by omega)
  have h0' : 0 ∈ range (d + 1) := mem_range.mpr (by omega)
  -- the slice i = d
  have e1 : ∑ j ∈ range (d + 1), ∑ k ∈ range (d + 1), (if d + j + k = d then X d * Y j * Z k else 0)
      = X d * Y 0 * Z 0 := by
    rw [sum_eq_single_of_mem 0 h0', sum_eq_single_of_mem 0 h0']
    · simp
    · intro k _ hk; rw [if_neg (by omega)]
    · intro j _ hj; exact sum_eq_zero fun k _ => by rw [if_neg (by omega)]
  -- for i < d, the slice j = d
  have e2 : ∑ i ∈ range d, ∑ k ∈ range (d + 1), (if i + d + k = d then X i * Y d * Z k else 0)
      = X 0 * Y d * Z 0 := by
    rw [sum_eq_single_of_mem 0 h0, sum_eq_single_of_mem 0 h0']
    · simp
    · intro k _ hk; rw [if_neg (by omega)]
    · intro i _ hi; exact sum_eq_zero fun k _ => by rw [if_neg (by omega)]
  -- for i, j < d, the slice k = d
  have e3 : ∑ i ∈ range d, ∑ j ∈ range d, (if i + j + d = d then X i * Y j * Z d else 0)
      = X 0 * Y 0 * Z d := by
    rw [sum_eq_single_of_mem 0 h0, sum_eq_single_of_mem 0 h0]
    · simp
    · intro j _ hj; rw [if_neg (by omega)]
    · intro i _ hi; exact sum_eq_zero fun j _ => by rw [if_neg (by omega)]
  rw [sum_range_succ, e1]
  have : ∀ i ∈ range d, ∑ j ∈ range (d + 1), ∑ k ∈ range (d + 1), (if i + j + k = d then X i * Y j * Z k else 0)
      = (∑ j ∈ range d, ∑ k ∈ range d, (if i + j + k = d then X i * Y j * Z k else 0))
        + (∑ j ∈ range d, (if i + j + d = d then X i * Y j * Z d else 0))
        + ∑ k ∈ range (d + 1), (if i + d + k = d then X i * Y d * Z k else 0) := by
    intro i _
    rw [sum_range_succ]
    congr 1
    rw [← sum_add_distrib]
    exact sum_congr rfl fun j _ => sum_range_succ _ _
  rw [sum_congr rfl this, sum_add_distrib, sum_add_distrib, e2, e3]
  abel

theorem sum3_swap {M : Type} [AddCommMonoid M] (s : Finset ℕ) (h : ℕ → ℕ → ℕ → M) :
    ∑ i ∈ s, ∑ j ∈ s, ∑ k ∈ s, h i j k = ∑ k ∈ s, ∑ j ∈ s, ∑ i ∈ s, h i j k := by
  rw [sum_comm]
  rw [sum_congr rfl fun j _ => sum_comm]
  rw [sum_comm]

theorem tripleLow_transpose (Q A : ℕ → Matrix n n K) (hA : ∀ k, (A k)ᵀ = A k) (d : ℕ) :
    (tripleLow (fun k => (Q k)ᵀ) A Q d)ᵀ = tripleLow (fun k => (Q k)ᵀ) A Q d := by
  unfold tripleLow
  simp only [transpose_sum]
  rw [sum3_swap]
  refine sum_congr rfl fun k _ => sum_congr rfl fun j _ => sum_congr rfl fun i _ => ?_
  by_cases h : i + j + k = d
  · rw [if_pos h, if_pos (by omega)]
    rw [transpose_mul, transpose_mul, transpose_transpose, hA j, Matrix.mul_assoc]
  · rw [if_neg h, if_neg (by omega)]; simp

/-- the step of `_eigh1` at order `d` -/
structure Eigh1Step (same : n → n → Prop) [DecidableRel same]
    (A Q L : ℕ → Matrix n n K) (l : n → K) (Hm : Matrix n n K) (d : ℕ) where
  G : Matrix n n K
  S : Matrix n n K
  Km : Matrix n n K
  X : Matrix n n K
  hG : G = ∑ k ∈ Finset.Ico 1 d, (Q k)ᵀ * Q (d - k)
  hS : S = (2 : K)⁻¹ • (-G)
  hK : Km = tripleLow (fun k => (Q k)ᵀ) A Q d + (Q 0)ᵀ * A d * Q 0 + S * diagonal l + diagonal l * S
  hL : L d = Matrix.of fun r c => if same r c then Km r c else 0
  hX : X = Matrix.of fun r c => Km r c * Hm r c
  hQ : Q d = Q 0 * (X + S)

section
variable (same : n → n → Prop) [DecidableRel same] (A Q L : ℕ → Matrix n n K) (l : n → K) (Hm : Matrix n n K) (d : ℕ)

theorem Hm_antisymm (hss : ∀ r c, same r c → same c r) (hH0 : ∀ r c, same r c → Hm r c = 0)
    (hH1 : ∀ r c, ¬ same r c → Hm r c * (l c - l r) = 1) (r c : n) : Hm c r = -Hm r c := by
  by_cases h : same r c
  · rw [hH0 r c h, hH0 c r (hss r c h), neg_zero]
  · have h' : ¬ same c r := fun hc => h (hss c r hc)
    have e1 := hH1 r c h
    have e2 := hH1 c r h'
    have hne : l c - l r ≠ 0 := by
      intro hz; rw [hz, mul_zero] at e1; exact zero_ne_one e1
    have : (Hm c r + Hm r c) * (l c - l r) = 0 := by linear_combination e1 - e2
    rcases mul_eq_zero.mp this with h3 | h3
    · linear_combination h3
    · exact absurd h3 hne

variable {same A Q L l Hm d}

theorem Eigh1Step.S_symm (st : Eigh1Step same A Q L l Hm d) : st.Sᵀ = st.S := by
  rw [st.hS, transpose_smul, transpose_neg, st.hG, sum_Ico_symm]

theorem Eigh1Step.K_symm (st : Eigh1Step same A Q L l Hm d) (hA : ∀ k, (A k)ᵀ = A k) : st.Kmᵀ = st.Km := by
  rw [st.hK]
  simp only [transpose_add, transpose_mul, transpose_transpose, diagonal_transpose]
  rw [tripleLow_transpose Q A hA d, hA d, st.S_symm, Matrix.mul_assoc]
  abel

theorem Eigh1Step.X_antisymm (st : Eigh1Step same A Q L l Hm d) (hA : ∀ k, (A k)ᵀ = A k)
    (hss : ∀ r c, same r c → same c r) (hH0 : ∀ r c, same r c → Hm r c = 0)
    (hH1 : ∀ r c, ¬ same r c → Hm r c * (l c - l r) = 1) : st.Xᵀ = -st.X := by
  ext r c
  have hk : st.Km c r = st.Km r c := by
    have := congrFun (congrFun (st.K_symm hA) r) c
    simpa using this
  rw [transpose_apply, neg_apply, st.hX, of_apply, of_apply, hk, Hm_antisymm same l Hm hss hH0 hH1 r c]
  ring

/-- **`QᵀQ = I` at order `d`** -/
theorem eigh1_orthogonality (hd : 1 ≤ d) (h0 : (Q 0)ᵀ * Q 0 = 1) (hA : ∀ k, (A k)ᵀ = A k)
    (hss : ∀ r c, same r c → same c r) (hH0 : ∀ r c, same r c → Hm r c = 0)
    (hH1 : ∀ r c, ¬ same r c → Hm r c * (l c - l r) = 1) (st : Eigh1Step same A Q L l Hm d) :
    ∑ k ∈ range (d + 1), (Q k)ᵀ * Q (d - k) = 0 := by
  rw [sum_split _ d hd]
  simp only [Nat.sub_zero, Nat.sub_self]
  rw [← st.hG, st.hQ, transpose_mul, transpose_add, st.X_antisymm hA hss hH0 hH1, st.S_symm,
    ← Matrix.mul_assoc, h0, Matrix.one_mul, Matrix.mul_assoc, h0, Matrix.mul_one]
  have h2 : st.S + st.S = -st.G := by
    rw [st.hS, ← two_smul K ((2:K)⁻¹ • -st.G), smul_smul, mul_inv_cancel₀ (two_ne_zero), one_smul]
  have : st.X + st.S + (-st.X + st.S) + st.G = (st.S + st.S) + st.G := by abel
  rw [this, h2]; abel

/-- **`(QᵀAQ)_d = Λ_d`** (block diagonal in the clusters; diagonal for distinct eigenvalues) -/
theorem eigh1_defining (hd : 1 ≤ d) (h0 : (Q 0)ᵀ * Q 0 = 1) (hA : ∀ k, (A k)ᵀ = A k)
    (hA0 : A 0 * Q 0 = Q 0 * diagonal l)
    (hss : ∀ r c, same r c → same c r) (hH0 : ∀ r c, same r c → Hm r c = 0)
    (hH1 : ∀ r c, ¬ same r c → Hm r c * (l c - l r) = 1) (st : Eigh1Step same A Q L l Hm d) :
    tripleAll (fun k => (Q k)ᵀ) A Q d = L d := by
  rw [tripleAll_split _ _ _ d hd]
  have hA0' : (Q 0)ᵀ * A 0 = diagonal l * (Q 0)ᵀ := by
    have := congrArg transpose hA0
    rw [transpose_mul, transpose_mul, hA 0, diagonal_transpose] at this
    exact this
  have e1 : (Q d)ᵀ * A 0 * Q 0 = (-st.X + st.S) * diagonal l := by
    rw [st.hQ, transpose_mul, transpose_add, st.X_antisymm hA hss hH0 hH1, st.S_symm, Matrix.mul_assoc, hA0,
      Matrix.mul_assoc, ← Matrix.mul_assoc (Q 0)ᵀ, h0, Matrix.one_mul]
  have e2 : (Q 0)ᵀ * A 0 * Q d = diagonal l * (st.X + st.S) := by
    rw [hA0', st.hQ, Matrix.mul_assoc, ← Matrix.mul_assoc (Q 0)ᵀ, h0, Matrix.one_mul]
  rw [e1, e2]
  have hsum : tripleLow (fun k => (Q k)ᵀ) A Q d + (-st.X + st.S) * diagonal l + (Q 0)ᵀ * A d * Q 0
      + diagonal l * (st.X + st.S) = st.Km + (diagonal l * st.X - st.X * diagonal l) := by
    rw [st.hK]; simp only [Matrix.add_mul, Matrix.mul_add, Matrix.neg_mul]; abel
  rw [hsum, st.hL]
  ext r c
  rw [Matrix.add_apply, Matrix.sub_apply, diagonal_mul, mul_diagonal, of_apply, st.hX, of_apply]
  by_cases h : same r c
  · rw [if_pos h, hH0 r c h]; ring
  · rw [if_neg h]
    have := hH1 r c h
    linear_combination (-st.Km r c) * this

/-- `Λ_d` vanishes outside the clusters by construction -/
theorem eigh1_block (st : Eigh1Step same A Q L l Hm d) (r c : n) (h : ¬ same r c) : L d r c = 0 := by
  rw [st.hL]; simp [h]

end
end AV.Factor
