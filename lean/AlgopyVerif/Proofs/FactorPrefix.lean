import AlgopyVerif.Proofs.EighStep
/-!
# The factorization steps determine every order from the lower orders of the input

Two runs (degree `D` on `A`, degree `D'` on the truncation `A'`) whose inputs agree up to order `m`, whose
zeroth-order leaves agree and which both obey the order-`d` step equations for `1 ≤ d ≤ m`, agree up to order
`m`: the low-order coefficients of QR / Cholesky / LU / `_eigh1` do not depend on the truncation degree.
-/
open Matrix Finset

namespace AV.Factor
variable {n : Type} [Fintype n] [DecidableEq n] {K : Type} [Field K]

theorem qr_determined (lt : n → n → Prop) [DecidableRel lt] (A A' Q Q' R R' : ℕ → Matrix n n K) (Rinv : Matrix n n K)
    (m : ℕ) (hA : ∀ d, d ≤ m → A d = A' d) (hQ0 : Q 0 = Q' 0) (hR0 : R 0 = R' 0)
    (st : ∀ d, 1 ≤ d → d ≤ m → QRStep lt A Q R Rinv d) (st' : ∀ d, 1 ≤ d → d ≤ m → QRStep lt A' Q' R' Rinv d) :
    ∀ d, d ≤ m → Q d = Q' d ∧ R d = R' d := by
  intro d
  induction d using Nat.strong_induction_on with
  | _ d ih =>
    intro hd
    rcases Nat.eq_zero_or_pos d with h0 | hpos
    · subst h0; exact ⟨hQ0, hR0⟩
    · have s := st d hpos hd
      have s' := st' d hpos hd
      have eH : s.H = s'.H := by
        rw [s.hH, s'.hH, hA d hd]
        congr 1
        refine sum_congr rfl fun k hk => ?_
        have := mem_Ico.mp hk
        rw [(ih k (by omega) (by omega)).1, (ih (d - k) (by omega) (by omega)).2]
      have eS : s.S = s'.S := by
        rw [s.hS, s'.hS]
        congr 2
        refine sum_congr rfl fun k hk => ?_
        have := mem_Ico.mp hk
        rw [(ih k (by omega) (by omega)).1, (ih (d - k) (by omega) (by omega)).1]
      have eX : s.X = s'.X := by rw [s.hX, s'.hX, eH, eS, hQ0]
      exact ⟨by rw [s.hQ, s'.hQ, eS, eX, hQ0], by rw [s.hR, s'.hR, eH, eS, eX, hQ0, hR0]⟩

theorem chol_determined (lt : n → n → Prop) [DecidableRel lt] (A A' L L' : ℕ → Matrix n n K) (L0inv : Matrix n n K)
    (m : ℕ) (hA : ∀ d, d ≤ m → A d = A' d) (hL0 : L 0 = L' 0)
    (st : ∀ d, 1 ≤ d → d ≤ m → CholStep lt A L L0inv d) (st' : ∀ d, 1 ≤ d → d ≤ m → CholStep lt A' L' L0inv d) :
    ∀ d, d ≤ m → L d = L' d := by
  intro d
  induction d using Nat.strong_induction_on with
  | _ d ih =>
    intro hd
    rcases Nat.eq_zero_or_pos d with h0 | hpos
    · subst h0; exact hL0
    · have s := st d hpos hd
      have s' := st' d hpos hd
      have edF : s.dF = s'.dF := by
        rw [s.hdF, s'.hdF, hA d hd]
        congr 1
        refine sum_congr rfl fun k hk => ?_
        have := mem_Ico.mp hk
        rw [ih k (by omega) (by omega), ih (d - k) (by omega) (by omega)]
      rw [s.hL, s'.hL, s.hG, s'.hG, edF, hL0]

theorem lu_determined (lt : n → n → Prop) [DecidableRel lt] (B B' L L' U U' : ℕ → Matrix n n K)
    (L0inv U0inv : Matrix n n K) (m : ℕ) (hB : ∀ d, d ≤ m → B d = B' d) (hL0 : L 0 = L' 0) (hU0 : U 0 = U' 0)
    (st : ∀ d, 1 ≤ d → d ≤ m → LUStep lt B L U L0inv U0inv d)
    (st' : ∀ d, 1 ≤ d → d ≤ m → LUStep lt B' L' U' L0inv U0inv d) :
    ∀ d, d ≤ m → L d = L' d ∧ U d = U' d := by
  intro d
  induction d using Nat.strong_induction_on with
  | _ d ih =>
    intro hd
    rcases Nat.eq_zero_or_pos d with h0 | hpos
    · subst h0; exact ⟨hL0, hU0⟩
    · have s := st d hpos hd
      have s' := st' d hpos hd
      have edF : s.dF = s'.dF := by
        rw [s.hdF, s'.hdF, hB d hd]
        congr 1
        refine sum_congr rfl fun k hk => ?_
        have := mem_Ico.mp hk
        rw [(ih k (by omega) (by omega)).2, (ih (d - k) (by omega) (by omega)).1]
      have eF : s.F = s'.F := by rw [s.hF, s'.hF, edF]
      exact ⟨by rw [s.hL, s'.hL, eF, hL0], by rw [s.hU, s'.hU, eF, hU0]⟩

theorem tripleLow_congr (X X' Y Y' Z Z' : ℕ → Matrix n n K) (d : ℕ)
    (hX : ∀ k, k < d → X k = X' k) (hY : ∀ k, k < d → Y k = Y' k) (hZ : ∀ k, k < d → Z k = Z' k) :
    tripleLow X Y Z d = tripleLow X' Y' Z' d := by
  unfold tripleLow
  refine sum_congr rfl fun i hi => sum_congr rfl fun j hj => sum_congr rfl fun k hk => ?_
  rw [hX i (mem_range.mp hi), hY j (mem_range.mp hj), hZ k (mem_range.mp hk)]

theorem eigh1_determined (same : n → n → Prop) [DecidableRel same] (A A' Q Q' L L' : ℕ → Matrix n n K) (l : n → K)
    (Hm : Matrix n n K) (m : ℕ) (hA : ∀ d, d ≤ m → A d = A' d) (hQ0 : Q 0 = Q' 0) (hL0 : L 0 = L' 0)
    (st : ∀ d, 1 ≤ d → d ≤ m → Eigh1Step same A Q L l Hm d)
    (st' : ∀ d, 1 ≤ d → d ≤ m → Eigh1Step same A' Q' L' l Hm d) :
    ∀ d, d ≤ m → Q d = Q' d ∧ L d = L' d := by
  intro d
  induction d using Nat.strong_induction_on with
  | _ d ih =>
    intro hd
    rcases Nat.eq_zero_or_pos d with h0 | hpos
    · subst h0; exact ⟨hQ0, hL0⟩
    · have s := st d hpos hd
      have s' := st' d hpos hd
      have eG : s.G = s'.G := by
        rw [s.hG, s'.hG]
        refine sum_congr rfl fun k hk => ?_
        have := mem_Ico.mp hk
        rw [(ih k (by omega) (by omega)).1, (ih (d - k) (by omega) (by omega)).1]
      have eS : s.S = s'.S := by rw [s.hS, s'.hS, eG]
      have eK : s.Km = s'.Km := by
        rw [s.hK, s'.hK, eS, hA d hd, hQ0]
        congr 3
        exact tripleLow_congr _ _ _ _ _ _ d
          (fun k hk => by show (Q k)ᵀ = (Q' k)ᵀ; rw [(ih k hk (by omega)).1])
          (fun k hk => hA k (by omega)) (fun k hk => (ih k hk (by omega)).1)
      have eX : s.X = s'.X := by rw [s.hX, s'.hX, eK]
      exact ⟨by rw [s.hQ, s'.hQ, eX, eS, hQ0], by rw [s.hL, s'.hL, eK]⟩

end AV.Factor
