import AlgopyVerif.Model.Convert
import Mathlib.Tactic.Ring
import Mathlib.Data.List.Basic
/-! over-shift: a shift by at least the number of coefficients gives the zero polynomial -/
namespace AV
variable {K : Type} [Field K]

theorem shiftS_overshift (s : Int) (x : List K) (h : x.length ≤ s.natAbs) :
    shiftS s x = List.replicate x.length 0 := by
  unfold shiftS
  simp only
  split
  · rename_i hs
    apply List.ext_getElem
    · simp
    · intro d h1 h2
      simp only [List.getElem_map, List.getElem_range, List.getElem_replicate]
      have hd : d < x.length := by simpa using h1
      rw [if_pos]
      omega
  · rename_i hs
    apply List.ext_getElem
    · simp
    · intro d h1 h2
      simp only [List.getElem_map, List.getElem_range, List.getElem_replicate]
      have hd : d < x.length := by simpa using h1
      rw [if_neg]
      omega

end AV
