import AlgopyVerif.Model.Convert
import AlgopyVerif.Proofs.NdArray
import Mathlib.Data.List.Nodup
import Mathlib.Data.List.Range
import Mathlib.Algebra.CharZero.Defs
import Mathlib.Tactic.FieldSimp
import Mathlib.Tactic.Ring
/-!
# Round trips of the conversion helpers
-/
namespace AV

/-! ## shift -/
section
variable {K : Type} [Field K]

theorem shiftS_length (s : Int) (x : List K) : (shiftS s x).length = x.length := by
  unfold shiftS; split <;> simp

theorem shiftS_zero (x : List K) : shiftS 0 x = x := by
  unfold shiftS
  simp only [lt_self_iff_false, if_false, neg_zero, Int.toNat_zero, Nat.add_zero]
  conv_rhs => rw [← range_map_co x]
  apply List.map_congr_left
  intro d hd
  simp [List.mem_range.mp hd]

theorem shiftS_pos (s : Nat) (hs : 0 < s) (x : List K) :
    shiftS (s:Int) x = (List.range x.length).map fun d => if d < s then 0 else co x (d - s) := by
  unfold shiftS
  have h2 : ((s:Int) > 0) := by omega
  simp only [h2, if_true, Int.toNat_natCast]

theorem shiftS_neg (s : Nat) (x : List K) :
    shiftS (-(s:Int)) x = (List.range x.length).map fun d => if d + s < x.length then co x (d + s) else 0 := by
  unfold shiftS
  have h1 : ¬ (-(s:Int) > 0) := by omega
  simp only [h1, if_false, neg_neg, Int.toNat_natCast]

/-- shifting up by `s` then down by `s` keeps coefficients `< D - s` and clears the last `s` -/
theorem shift_up_down (s : Nat) (x : List K) (hs : s ≤ x.length) :
    shiftS (-(s:Int)) (shiftS (s:Int) x)
      = (List.range x.length).map fun d => if d + s < x.length then co x d else 0 := by
  rcases Nat.eq_zero_or_pos s with h0 | hpos
  · subst h0
    simp only [Int.natCast_zero, neg_zero, shiftS_zero, Nat.add_zero]
    conv_lhs => rw [← range_map_co x]
    apply List.map_congr_left
    intro d hd; simp [List.mem_range.mp hd]
  · rw [shiftS_neg, shiftS_length]
    apply List.map_congr_left
    intro d hd
    have hd' := List.mem_range.mp hd
    by_cases hlt : d + s < x.length
    · simp only [hlt, if_true]
      rw [shiftS_pos s hpos, co_map_range _ _ _ hlt]
      have : ¬ (d + s < s) := by omega
      simp [this]
    · simp [hlt]

/-- shifting down by `s` then up by `s` keeps coefficients `≥ s` and clears the first `s` -/
theorem shift_down_up (s : Nat) (x : List K) (hs : s ≤ x.length) :
    shiftS (s:Int) (shiftS (-(s:Int)) x)
      = (List.range x.length).map fun d => if d < s then 0 else co x d := by
  rcases Nat.eq_zero_or_pos s with h0 | hpos
  · subst h0
    simp only [Int.natCast_zero, neg_zero, shiftS_zero]
    conv_lhs => rw [← range_map_co x]
    apply List.map_congr_left
    intro d hd; simp
  · rw [shiftS_pos s hpos, shiftS_length]
    apply List.map_congr_left
    intro d hd
    have hd' := List.mem_range.mp hd
    by_cases hlt : d < s
    · simp [hlt]
    · simp only [hlt, if_false]
      rw [shiftS_neg, co_map_range _ _ _ (by omega)]
      have : d - s + s < x.length := by omega
      simp only [this, if_true]
      congr 1
      omega
end

/-! ## symvec / vecsym -/
theorem mem_triPairs (N r c : Nat) : (r, c) ∈ triPairs N ↔ r ≤ c ∧ c < N := by
  unfold triPairs
  simp only [List.mem_flatMap, List.mem_range, List.mem_map, Prod.mk.injEq]
  constructor
  · rintro ⟨a, ha, k, hk, rfl, rfl⟩; omega
  · rintro ⟨h1, h2⟩; exact ⟨r, by omega, c - r, by omega, rfl, by omega⟩

theorem nodup_triPairs (N : Nat) : (triPairs N).Nodup := by
  unfold triPairs
  rw [List.nodup_flatMap]
  constructor
  · intro r _
    exact List.nodup_range.map (fun a b h => by simpa using h)
  · apply List.Nodup.pairwise_of_forall_ne List.nodup_range
    intro a _ b _ hab
    simp only [Function.onFun, List.disjoint_left, List.mem_map, List.mem_range]
    rintro x ⟨k, _, rfl⟩ ⟨k', _, h⟩
    simp only [Prod.mk.injEq] at h
    exact hab h.1.symm

section
variable {K : Type} [Field K] [CharZero K]

theorem co_map_idxOf {α} [BEq α] [LawfulBEq α] (l : List α) (f : α → K) (a : α) (h : a ∈ l) :
    co (l.map f) (l.idxOf a) = f a := by
  unfold co
  have hlt : l.idxOf a < l.length := List.idxOf_lt_length_of_mem h
  rw [List.getD_eq_getElem?_getD, List.getElem?_map, List.getElem?_eq_getElem hlt]
  simp [List.getElem_idxOf hlt]

theorem half_add_self (a : K) : (a + a) / nat 2 = a := by
  have : (nat 2 : K) = 2 := by simp [nat]
  rw [this]; field_simp; ring

/-- `vecsym (symvec A) = A` for symmetric `A` (full storage) -/
theorem vecsym_symvec_F (N : Nat) (A : Nat → Nat → K) (hA : ∀ r c, A r c = A c r) (r c : Nat)
    (hr : r < N) (hc : c < N) : vecsymF N (symvecF N 'F' A) r c = A r c := by
  unfold vecsymF symvecF
  rw [co_map_idxOf _ _ _ ((mem_triPairs N _ _).mpr ⟨min_le_max, by simp [max_lt hr hc]⟩)]
  simp only [if_true]
  rw [hA (max r c) (min r c), half_add_self]
  rcases le_total r c with h | h
  · rw [min_eq_left h, max_eq_right h]
  · rw [min_eq_right h, max_eq_left h, hA]

/-- lower / upper storage: `vecsym (symvec A 'L')` reproduces the lower triangle, mirrored -/
theorem vecsym_symvec_L (N : Nat) (A : Nat → Nat → K) (r c : Nat) (hr : r < N) (hc : c < N) :
    vecsymF N (symvecF N 'L' A) r c = A (max r c) (min r c) := by
  unfold vecsymF symvecF
  rw [co_map_idxOf _ _ _ ((mem_triPairs N _ _).mpr ⟨min_le_max, by simp [max_lt hr hc]⟩)]
  simp

theorem vecsym_symvec_U (N : Nat) (A : Nat → Nat → K) (r c : Nat) (hr : r < N) (hc : c < N) :
    vecsymF N (symvecF N 'U' A) r c = A (min r c) (max r c) := by
  unfold vecsymF symvecF
  rw [co_map_idxOf _ _ _ ((mem_triPairs N _ _).mpr ⟨min_le_max, by simp [max_lt hr hc]⟩)]
  simp

/-- `symvec (vecsym v) = v` -/
theorem symvec_vecsym (N : Nat) (v : List K) (hv : v.length = (triPairs N).length) :
    symvecF N 'F' (vecsymF N v) = v := by
  unfold symvecF
  apply List.ext_getElem (by simp [hv])
  intro k h1 h2
  simp only [List.getElem_map, if_true]
  have hk : k < (triPairs N).length := by simpa using h1
  have hmem : (triPairs N)[k] ∈ triPairs N := List.getElem_mem hk
  have hidx : (triPairs N).idxOf (triPairs N)[k] = k := (nodup_triPairs N).idxOf_getElem k hk
  generalize (triPairs N)[k] = rc at hmem hidx
  obtain ⟨r, c⟩ := rc
  have hrc := (mem_triPairs N r c).mp hmem
  simp only
  unfold vecsymF
  rw [min_eq_left hrc.1, max_eq_right hrc.1, min_eq_right hrc.1, max_eq_left hrc.1, hidx, half_add_self]
  unfold co
  rw [List.getD_eq_getElem?_getD, List.getElem?_eq_getElem h2]
  rfl

end
end AV

namespace AV
open NdArray
section
variable {K : Type} [Field K]
attribute [local instance] inh0

theorem validIdx_length : ∀ (s idx : List Nat), ValidIdx s idx → idx.length = s.length
  | [], [], _ => rfl
  | _ :: ns, _ :: is, h => by simp [validIdx_length ns is h.2]
  | [], _ :: _, h => by simp [ValidIdx] at h
  | _ :: _, [], h => by simp [ValidIdx] at h

theorem validIdx_append : ∀ (s idx t jdx : List Nat), ValidIdx s idx → ValidIdx t jdx →
    ValidIdx (s ++ t) (idx ++ jdx)
  | [], [], _, _, _, h => h
  | _ :: ns, _ :: is, t, jdx, h, h' => ⟨h.1, validIdx_append ns is t jdx h.2 h'⟩
  | [], _ :: _, _, _, h, _ => by simp [ValidIdx] at h
  | _ :: _, [], _, _, h, _ => by simp [ValidIdx] at h

theorem baseDirs2utpm_shape (x V : NdArray K) (s : List Nat) (P D : Nat) (hx : x.shape = s)
    (hV : V.shape = s ++ [P, D]) : (baseDirs2utpm x V).shape = (D+1) :: P :: s := by
  unfold baseDirs2utpm
  simp [ofFn, hx, hV]

/-- base point survives `base_and_dirs2utpm` then `utpm2base_and_dirs` -/
theorem base_roundtrip (x V : NdArray K) (s : List Nat) (P D : Nat) (hx : x.shape = s)
    (hV : V.shape = s ++ [P, D]) (hP : 0 < P) (idx : List Nat) (h : ValidIdx s idx) :
    (utpm2baseDirs (baseDirs2utpm x V)).1.get idx = x.get idx := by
  have hsh := baseDirs2utpm_shape x V s P D hx hV
  unfold utpm2baseDirs
  simp only [utShape, hsh, List.drop_succ_cons, List.drop_zero]
  rw [get_ofFn _ _ _ h]
  unfold baseDirs2utpm
  simp only [hx, hV, List.getD_eq_getElem?_getD]
  rw [get_ofFn _ _ _ (by
    have : ValidIdx ((D+1) :: P :: s) (0 :: 0 :: idx) := ⟨by omega, hP, h⟩
    simpa using this)]
  simp

/-- directions survive the round trip -/
theorem dirs_roundtrip (x V : NdArray K) (s : List Nat) (P D : Nat) (hx : x.shape = s)
    (hV : V.shape = s ++ [P, D]) (idx : List Nat) (h : ValidIdx s idx) (p d : Nat) (hp : p < P) (hd : d < D) :
    (utpm2baseDirs (baseDirs2utpm x V)).2.get (idx ++ [p, d]) = V.get (idx ++ [p, d]) := by
  have hsh := baseDirs2utpm_shape x V s P D hx hV
  have hlen := validIdx_length s idx h
  unfold utpm2baseDirs
  simp only [utShape, utP, utD, hsh, List.drop_succ_cons, List.drop_zero, List.getD_cons_zero,
    List.getD_cons_succ, Nat.add_sub_cancel]
  have hv : ValidIdx (s ++ [P, D]) (idx ++ [p, d]) :=
    validIdx_append s idx [P, D] [p, d] h ⟨hp, hd, trivial⟩
  rw [get_ofFn _ _ _ hv]
  have e1 : (idx ++ [p, d]).take s.length = idx := by rw [← hlen]; simp
  have e2 : (idx ++ [p, d]).getD s.length 0 = p := by
    rw [← hlen, List.getD_eq_getElem?_getD]; simp
  have e3 : (idx ++ [p, d]).getD (s.length + 1) 0 = d := by
    rw [← hlen, List.getD_eq_getElem?_getD]; simp
  rw [e1, e2, e3]
  unfold baseDirs2utpm
  simp only [hx, hV]
  have hPD : (s ++ [P, D]).getD s.length 0 = P ∧ (s ++ [P, D]).getD (s.length + 1) 0 = D := by
    constructor <;> (rw [List.getD_eq_getElem?_getD]; simp)
  rw [hPD.1, hPD.2, get_ofFn _ _ _ (show ValidIdx ((D+1) :: P :: s) ((d+1) :: p :: idx) from ⟨by omega, hp, h⟩)]
  simp

/-! ## containers of polynomials (`as_utpm`, `ndarray2utpm`) -/

/-- the shape of the converted container -/
theorem containerToUtpm_shape (outer e : List Nat) (X : NdArray K) (n D P : Nat) (hX : X.shape = n :: D :: P :: e) :
    (containerToUtpm outer X).shape = D :: P :: (outer ++ e) := by
  unfold containerToUtpm
  simp [hX, ofFn]

/-- **every element is read back**: entry `o` of the converted container is element `ravel o` of the stack, coefficient by
coefficient -/
theorem containerToUtpm_get (outer e : List Nat) (X : NdArray K) (n D P : Nat) (hX : X.shape = n :: D :: P :: e)
    (d p : Nat) (hd : d < D) (hp : p < P) (o ei : List Nat) (ho : ValidIdx outer o) (he : ValidIdx e ei) :
    (containerToUtpm outer X).get (d :: p :: (o ++ ei)) = X.get (ravel outer o :: d :: p :: ei) := by
  unfold containerToUtpm
  simp only [hX, List.getD_cons_succ, List.getD_cons_zero, List.drop_succ_cons, List.drop_zero]
  have hv : ValidIdx (D :: P :: (outer ++ e)) (d :: p :: (o ++ ei)) := ⟨hd, hp, validIdx_append outer o e ei ho he⟩
  rw [get_ofFn _ _ _ hv]
  have hlen := validIdx_length outer o ho
  simp [← hlen]
end
end AV
