import AlgopyVerif.Model.Interp
import Mathlib.Data.List.Nodup
import Mathlib.Data.List.Range
import Mathlib.Algebra.BigOperators.Group.List.Basic
import Mathlib.Tactic.Ring
import Mathlib.Algebra.Order.Ring.Nat
/-!
# The multi-index list enumerates every monomial of degree `d` exactly once
-/
namespace AV.Interp

theorem mem_multiIndices_succ : ∀ (N d : Nat) (i : List Nat),
    i ∈ multiIndices (N+1) d ↔ i.length = N+1 ∧ i.sum = d
  | 0, d, i => by
    simp only [multiIndices, List.mem_singleton]
    constructor
    · rintro rfl; simp
    · rintro ⟨hl, hs⟩
      match i, hl with
      | [a], _ => simp at hs; simp [hs]
  | N+1, d, i => by
    simp only [multiIndices, List.mem_flatMap, List.mem_reverse, List.mem_range, List.mem_map]
    constructor
    · rintro ⟨a, ha, t, ht, rfl⟩
      have := (mem_multiIndices_succ N (d - a) t).mp ht
      refine ⟨by simp [this.1], ?_⟩
      simp [this.2]; omega
    · rintro ⟨hl, hs⟩
      match i, hl with
      | a :: t, hl =>
        simp only [List.sum_cons] at hs
        refine ⟨a, by omega, t, ?_, rfl⟩
        apply (mem_multiIndices_succ N (d - a) t).mpr
        simp only [List.length_cons, Nat.add_right_cancel_iff] at hl
        exact ⟨hl, by omega⟩

theorem nodup_multiIndices : ∀ (N d : Nat), (multiIndices N d).Nodup
  | 0, _ => by simp [multiIndices]
  | 1, _ => by simp [multiIndices]
  | N+2, d => by
    simp only [multiIndices]
    rw [List.nodup_flatMap]
    constructor
    · intro a _
      exact (nodup_multiIndices (N+1) (d - a)).map (fun _ _ h => by simpa using h)
    · apply List.Nodup.pairwise_of_forall_ne
      · exact List.nodup_reverse.mpr List.nodup_range
      · intro a _ b _ hab
        simp only [Function.onFun, List.disjoint_left, List.mem_map]
        rintro x ⟨t, _, rfl⟩ ⟨t', _, h⟩
        simp only [List.cons.injEq] at h
        exact hab h.1.symm

end AV.Interp
