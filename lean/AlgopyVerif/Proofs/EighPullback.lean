import AlgopyVerif.Proofs.MatPullback
import Mathlib.Tactic.LinearCombination
import Mathlib.Tactic.Ring
/-!
# Symmetric eigendecomposition: tangent and adjoint over any commutative ring `S`

`S = ℝ[t]/(t^D)`: `λ_n − λ_m` is a Taylor polynomial and `H_mn = 1/(λ_n − λ_m)` is its reciprocal **in `S`**
(the repaired `_eigh_pullback` computes it with `_truediv`; it had used the order-0 number at every order).

From `QᵀQ = QQᵀ = 1`, `A Q = Q Λ` (`Λ` diagonal), the linearised equations `dA Q + A dQ = dQ Λ + Q dΛ`
(`dΛ` diagonal), `QᵀdQ + dQᵀQ = 0`, and `H_mn (λ_n − λ_m) = 1` for `m ≠ n`:

    dΛ_mm = (Qᵀ dA Q)_mm ,      dQ = Q (H ∘ QᵀdAQ)  (off-diagonal `H`, zero diagonal),

and the pullback `Abar = Q (Λbar + H ∘ (QᵀQbar)) Qᵀ` satisfies `⟪Λbar, dΛ⟫ + ⟪Qbar, dQ⟫ = ⟪Abar, dA⟫`.
-/
open Matrix

namespace AV.MatPB
variable {S : Type} [CommRing S] {n : Type} [Fintype n] [DecidableEq n]

/-- Hadamard product -/
def had (A B : Matrix n n S) : Matrix n n S := Matrix.of fun i j => A i j * B i j

/-- **tangent of `eigh`** (`h2`: no 2-torsion, true in `ℝ[t]/(t^D)`) -/
theorem eigh_tangent (A dA Q dQ : Matrix n n S) (l dl : n → S) (H : Matrix n n S)
    (hQtQ : Qᵀ * Q = 1) (hAQ : A * Q = Q * diagonal l)
    (hlin : dA * Q + A * dQ = dQ * diagonal l + Q * diagonal dl)
    (hskew : Qᵀ * dQ + dQᵀ * Q = 0)
    (hH : ∀ m k, m ≠ k → H m k * (l k - l m) = 1) (hH0 : ∀ m, H m m = 0) (hsymA : Aᵀ = A)
    (h2 : ∀ a : S, a + a = 0 → a = 0) :
    (∀ m, dl m = (Qᵀ * dA * Q) m m) ∧ Qᵀ * dQ = had H (Qᵀ * dA * Q) := by
  -- C = QᵀdQ;  M = QᵀdAQ;  from the linearised equation: M + Λ C = C Λ + dΛ
  have hQtA : Qᵀ * A = diagonal l * Qᵀ := by
    have := congrArg transpose hAQ
    rw [transpose_mul, transpose_mul, hsymA, diagonal_transpose] at this
    exact this
  have hkey : Qᵀ * dA * Q + diagonal l * (Qᵀ * dQ) = Qᵀ * dQ * diagonal l + diagonal dl := by
    have h := congrArg (fun X => Qᵀ * X) hlin
    simp only [Matrix.mul_add] at h
    calc Qᵀ * dA * Q + diagonal l * (Qᵀ * dQ)
        = Qᵀ * (dA * Q) + Qᵀ * (A * dQ) := by
          rw [Matrix.mul_assoc, ← Matrix.mul_assoc Qᵀ A dQ, hQtA, Matrix.mul_assoc]
      _ = Qᵀ * (dQ * diagonal l) + Qᵀ * (Q * diagonal dl) := h
      _ = Qᵀ * dQ * diagonal l + diagonal dl := by
          rw [← Matrix.mul_assoc, ← Matrix.mul_assoc Qᵀ Q, hQtQ, Matrix.one_mul]
  have hentry : ∀ m k, (Qᵀ * dA * Q) m k + l m * (Qᵀ * dQ) m k
      = (Qᵀ * dQ) m k * l k + (if m = k then dl m else 0) := by
    intro m k
    have := congrFun (congrFun hkey m) k
    rw [Matrix.add_apply, Matrix.add_apply, diagonal_mul, mul_diagonal, diagonal_apply] at this
    exact this
  have hCdiag : ∀ m, (Qᵀ * dQ) m m = 0 := by
    intro m
    have := congrFun (congrFun hskew m) m
    have e : (dQᵀ * Q) = (Qᵀ * dQ)ᵀ := by rw [transpose_mul, transpose_transpose]
    rw [e, Matrix.add_apply, transpose_apply] at this
    exact h2 _ (by simpa using this)
  constructor
  · intro m
    have := hentry m m
    rw [if_pos rfl] at this
    linear_combination -this
  · ext m k
    rw [had, of_apply]
    by_cases hmk : m = k
    · subst hmk
      rw [hH0 m, zero_mul, hCdiag m]
    · have h1 := hentry m k
      rw [if_neg hmk, add_zero] at h1
      have h3 := hH m k hmk
      linear_combination (-(H m k)) * h1 - ((Qᵀ * dQ) m k) * h3

theorem pair_had (A B C : Matrix n n S) : pair A (had B C) = pair (had B A) C := by
  rw [pair_eq_sum, pair_eq_sum]
  refine Finset.sum_congr rfl fun i _ => Finset.sum_congr rfl fun j _ => ?_
  simp only [had, of_apply]; ring

theorem pair_congr_mul (Q X Y : Matrix n n S) : pair X (Qᵀ * Y * Q) = pair (Q * X * Qᵀ) Y := by
  unfold pair
  rw [transpose_mul, transpose_mul, transpose_transpose]
  -- tr(Xᵀ Qᵀ Y Q) = tr(Q Xᵀ Qᵀ Y)
  rw [show Xᵀ * (Qᵀ * Y * Q) = (Xᵀ * Qᵀ * Y) * Q by simp only [Matrix.mul_assoc], Matrix.trace_mul_comm]
  simp only [Matrix.mul_assoc]

/-- **`_eigh_pullback`**: with `dΛ = diag(QᵀdAQ)` and `dQ = Q (H ∘ QᵀdAQ)`,
`⟪Λbar, dΛ⟫ + ⟪Qbar, dQ⟫ = ⟪Q (Λbar + H ∘ (QᵀQbar)) Qᵀ, dA⟫` (`Λbar` diagonal) -/
theorem eigh_adjoint (dA Q Qbar : Matrix n n S) (lbar : n → S) (H : Matrix n n S) :
    pair (diagonal lbar) (Matrix.of fun i j => if i = j then (Qᵀ * dA * Q) i j else 0)
        + pair Qbar (Q * had H (Qᵀ * dA * Q))
      = pair (Q * (diagonal lbar + had H (Qᵀ * Qbar)) * Qᵀ) dA := by
  have e1 : pair (diagonal lbar) (Matrix.of fun i j => if i = j then (Qᵀ * dA * Q) i j else 0)
      = pair (diagonal lbar) (Qᵀ * dA * Q) := by
    rw [pair_eq_sum, pair_eq_sum]
    refine Finset.sum_congr rfl fun i _ => Finset.sum_congr rfl fun j _ => ?_
    by_cases h : i = j
    · simp [h]
    · simp [diagonal_apply, h]
  have e2 : pair Qbar (Q * had H (Qᵀ * dA * Q)) = pair (Qᵀ * Qbar) (had H (Qᵀ * dA * Q)) := by
    unfold pair
    simp only [transpose_mul, transpose_transpose, Matrix.mul_assoc]
  rw [e1, e2, pair_had, pair_congr_mul, pair_congr_mul, Matrix.mul_add, Matrix.add_mul]
  unfold pair
  rw [transpose_add, Matrix.add_mul, Matrix.trace_add]

end AV.MatPB
