import AlgopyVerif.Model.Heap
import AlgopyVerif.Proofs.PowerSeries
/-!
# Aliasing proofs for the in-place kernels
-/
namespace AV
open Finset

/-- descending loop invariant principle -/
theorem foldl_range_reverse_inv {β : Type} (step : β → Nat → β) (Inv : Nat → β → Prop) :
    ∀ (n : Nat) (b : β), Inv n b → (∀ m, m < n → ∀ b', Inv (m+1) b' → Inv m (step b' m)) →
      Inv 0 ((List.range n).reverse.foldl step b) := by
  intro n
  induction n with
  | zero => intro b h _; simpa using h
  | succ n ih =>
    intro b h hs
    rw [List.range_succ, List.reverse_append, List.reverse_singleton, List.singleton_append, List.foldl_cons]
    exact ih (step b n) (hs n (by omega) b h) (fun m hm b' hb' => hs m (by omega) b' hb')

section
variable {K : Type} [Field K]

theorem co_set_eq (b : List K) (d : Nat) (v : K) (h : d < b.length) : co (b.set d v) d = v := by
  unfold co
  rw [List.getD_eq_getElem?_getD, List.getElem?_set_self (by simpa using h)]
  rfl

theorem co_set_ne (b : List K) (d i : Nat) (v : K) (h : i ≠ d) : co (b.set d v) i = co b i := by
  unfold co
  rw [List.getD_eq_getElem?_getD, List.getD_eq_getElem?_getD, List.getElem?_set_ne (Ne.symm h)]

/-- invariant of the descending `_mul` loop with the output aliasing `y` -/
def InvY (x y : List K) (m : Nat) (b : List K) : Prop :=
  b.length = y.length ∧ (∀ i, i < m → co b i = co y i) ∧ (∀ i, m ≤ i → i < y.length → co b i = co (mulS x y) i)

/-- `_mul(x, y, out=y)` computes the Cauchy product although it overwrites `y` while reading it -/
theorem mulOutAliasY_eq (x y : List K) (hl : x.length = y.length) : mulOutAliasY x y = mulS x y := by
  have hinv : InvY x y 0 (mulOutAliasY x y) := by
    unfold mulOutAliasY
    apply foldl_range_reverse_inv (mulStepAliasY x) (InvY x y) y.length y
    · exact ⟨rfl, fun _ _ => rfl, fun i h1 h2 => by omega⟩
    · intro m hm b ⟨hlen, hlo, hhi⟩
      refine ⟨by simp [mulStepAliasY, hlen], ?_, ?_⟩
      · intro i hi
        unfold mulStepAliasY
        rw [co_set_ne _ _ _ _ (by omega)]
        exact hlo i (by omega)
      · intro i hmi hiy
        unfold mulStepAliasY
        by_cases he : i = m
        · subst he
          rw [co_set_eq _ _ _ (by omega), mulS_co x y i (by omega), sumRange_eq]
          simp only [Nat.sub_zero, Nat.zero_add]
          apply sum_congr rfl
          intro k hk
          have := mem_range.mp hk
          rw [hlo (i - k) (by omega)]
        · rw [co_set_ne _ _ _ _ he]
          exact hhi i (by omega) hiy
  apply list_ext_co _ _ (by rw [hinv.1, mulS_length, hl])
  intro d hd
  rw [hinv.1] at hd
  exact hinv.2.2 d (by omega) hd

def InvX (x y : List K) (m : Nat) (b : List K) : Prop :=
  b.length = x.length ∧ (∀ i, i < m → co b i = co x i) ∧ (∀ i, m ≤ i → i < x.length → co b i = co (mulS x y) i)

/-- `_mul(x, y, out=x)` -/
theorem mulOutAliasX_eq (x y : List K) : mulOutAliasX x y = mulS x y := by
  have hinv : InvX x y 0 (mulOutAliasX x y) := by
    unfold mulOutAliasX
    apply foldl_range_reverse_inv (mulStepAliasX y) (InvX x y) x.length x
    · exact ⟨rfl, fun _ _ => rfl, fun i h1 h2 => by omega⟩
    · intro m hm b ⟨hlen, hlo, hhi⟩
      refine ⟨by simp [mulStepAliasX, hlen], ?_, ?_⟩
      · intro i hi
        unfold mulStepAliasX
        rw [co_set_ne _ _ _ _ (by omega)]
        exact hlo i (by omega)
      · intro i hmi hix
        unfold mulStepAliasX
        by_cases he : i = m
        · subst he
          rw [co_set_eq _ _ _ (by omega), mulS_co x y i (by omega), sumRange_eq]
          simp only [Nat.sub_zero, Nat.zero_add]
          apply sum_congr rfl
          intro k hk
          have := mem_range.mp hk
          rw [hlo k (by omega)]
        · rw [co_set_ne _ _ _ _ he]
          exact hhi i (by omega) hix
  apply list_ext_co _ _ (by rw [hinv.1, mulS_length])
  intro d hd
  rw [hinv.1] at hd
  exact hinv.2.2 d (by omega) hd

def InvXY (x : List K) (m : Nat) (b : List K) : Prop :=
  b.length = x.length ∧ (∀ i, i < m → co b i = co x i) ∧ (∀ i, m ≤ i → i < x.length → co b i = co (mulS x x) i)

/-- `_mul(x, x, out=x)` : `x ∘ x` with everything aliased equals `x * copy(x)` -/
theorem mulOutAliasXY_eq (x : List K) : mulOutAliasXY x = mulS x x := by
  have hinv : InvXY x 0 (mulOutAliasXY x) := by
    unfold mulOutAliasXY
    apply foldl_range_reverse_inv mulStepAliasXY (InvXY x) x.length x
    · exact ⟨rfl, fun _ _ => rfl, fun i h1 h2 => by omega⟩
    · intro m hm b ⟨hlen, hlo, hhi⟩
      refine ⟨by simp [mulStepAliasXY, hlen], ?_, ?_⟩
      · intro i hi
        unfold mulStepAliasXY
        rw [co_set_ne _ _ _ _ (by omega)]
        exact hlo i (by omega)
      · intro i hmi hix
        unfold mulStepAliasXY
        by_cases he : i = m
        · subst he
          rw [co_set_eq _ _ _ (by omega), mulS_co x x i (by omega), sumRange_eq]
          simp only [Nat.sub_zero, Nat.zero_add]
          apply sum_congr rfl
          intro k hk
          have := mem_range.mp hk
          rw [hlo k (by omega), hlo (i - k) (by omega)]
        · rw [co_set_ne _ _ _ _ he]
          exact hhi i (by omega) hix
  apply list_ext_co _ _ (by rw [hinv.1, mulS_length])
  intro d hd
  rw [hinv.1] at hd
  exact hinv.2.2 d (by omega) hd

/-! ### `__imul__` -/

/-- inner accumulation loop of `__imul__`: only entry `d` changes, to
`z_d y_0 + Σ_{c<n} z_c y_{d-c}` -/
theorem imul_inner (y : List K) (d : Nat) : ∀ (n : Nat) (z1 : List K), n ≤ d → d < z1.length →
    let r := (List.range n).foldl (fun zz c => zz.set d (co zz d + co zz c * co y (d-c))) z1
    r.length = z1.length ∧ (∀ i, i ≠ d → co r i = co z1 i) ∧
      co r d = co z1 d + ∑ c ∈ range n, co z1 c * co y (d-c) := by
  intro n
  induction n with
  | zero => intro z1 _ _; simp
  | succ n ih =>
    intro z1 hn hd
    simp only
    rw [List.range_succ, List.foldl_append, List.foldl_cons, List.foldl_nil]
    obtain ⟨h1, h2, h3⟩ := ih z1 (by omega) hd
    set r := (List.range n).foldl (fun zz c => zz.set d (co zz d + co zz c * co y (d-c))) z1 with hr
    refine ⟨by simp [h1], ?_, ?_⟩
    · intro i hi
      rw [co_set_ne _ _ _ _ hi]
      exact h2 i hi
    · rw [co_set_eq _ _ _ (by rw [h1]; exact hd), h3, h2 n (by omega), sum_range_succ]
      ring

theorem imulStep_spec (y z : List K) (d : Nat) (hd : d < z.length) :
    (imulStep y z d).length = z.length ∧ (∀ i, i ≠ d → co (imulStep y z d) i = co z i) ∧
      co (imulStep y z d) d = ∑ c ∈ range (d+1), co z c * co y (d-c) := by
  unfold imulStep
  simp only
  obtain ⟨h1, h2, h3⟩ := imul_inner y d d (z.set d (co z d * co y 0)) (le_refl _) (by simpa using hd)
  refine ⟨by rw [h1]; simp, ?_, ?_⟩
  · intro i hi
    rw [h2 i hi, co_set_ne _ _ _ _ hi]
  · rw [h3, co_set_eq _ _ _ hd, sum_range_succ, Nat.sub_self]
    have : ∑ c ∈ range d, co (z.set d (co z d * co y 0)) c * co y (d - c) = ∑ c ∈ range d, co z c * co y (d - c) := by
      apply sum_congr rfl
      intro c hc
      have := mem_range.mp hc
      rw [co_set_ne _ _ _ _ (by omega)]
    rw [this]
    ring

/-- `x *= y` (independent buffers) computes the Cauchy product `x * y` -/
theorem imulS_eq (z y : List K) : imulS z y = mulS z y := by
  have hinv : InvX z y 0 (imulS z y) := by
    unfold imulS
    apply foldl_range_reverse_inv (imulStep y) (InvX z y) z.length z
    · exact ⟨rfl, fun _ _ => rfl, fun i h1 h2 => by omega⟩
    · intro m hm b ⟨hlen, hlo, hhi⟩
      obtain ⟨s1, s2, s3⟩ := imulStep_spec y b m (by omega)
      refine ⟨by rw [s1, hlen], ?_, ?_⟩
      · intro i hi
        rw [s2 i (by omega)]
        exact hlo i (by omega)
      · intro i hmi hix
        by_cases he : i = m
        · subst he
          rw [s3, mulS_co z y i (by omega)]
          apply sum_congr rfl
          intro k hk
          have := mem_range.mp hk
          rw [hlo k (by omega)]
        · rw [s2 i he]
          exact hhi i (by omega) hix
  apply list_ext_co _ _ (by rw [hinv.1, mulS_length])
  intro d hd
  rw [hinv.1] at hd
  exact hinv.2.2 d (by omega) hd

end
end AV
