import AlgopyVerif.Proofs.Index
/-!
# Item assignment: exactly the selected cells change, slice by slice

`setitemWith a idx val`: for an index map that is injective on the valid result indices (every basic index
expression is), cell `m j` receives `val j` and every unselected cell keeps its value.  For UTPM arrays the index is
`(:, :) ++ idx`, whose map is `(d, p, j) ↦ (d, p, m j)` (prefix law), so assignment acts on every coefficient slice
`(d, p)` separately; assigning a constant sets the zeroth coefficient and clears all higher ones.
-/
namespace AV
open NdArray

theorem mem_allIdx (s j : List Nat) : j ∈ allIdx s ↔ ValidIdx s j := by
  unfold allIdx
  constructor
  · intro h
    obtain ⟨k, hk, rfl⟩ := List.mem_map.mp h
    exact unravel_valid s k (List.mem_range.mp hk)
  · intro h
    exact List.mem_map.mpr ⟨ravel s j, List.mem_range.mpr (ravel_lt s j h), unravel_ravel s j h⟩

section
variable {α : Type} [Inhabited α]

/-- a selected cell receives the value of the (unique) result index that maps to it -/
theorem setitemWith_hit (a b : NdArray α) (idx : List Idx) (val : List Nat → α) (s : List Nat) (m : List Nat → List Nat)
    (hm : getitemMap a.shape idx = some (s, m)) (hb : setitemWith a idx val = some b)
    (j : List Nat) (hj : ValidIdx s j) (hi : ValidIdx a.shape (m j))
    (hinj : ∀ j', ValidIdx s j' → m j' = m j → j' = j) :
    b.shape = a.shape ∧ b.get (m j) = val j := by
  unfold setitemWith at hb
  rw [hm] at hb
  simp only [Option.bind_eq_bind, Option.bind_some, Option.pure_def, Option.some.injEq] at hb
  subst hb
  refine ⟨by simp [ofFn], ?_⟩
  rw [get_ofFn _ _ _ hi]
  have hmem : j ∈ (allIdx s).reverse := List.mem_reverse.mpr ((mem_allIdx s j).mpr hj)
  cases hf : (allIdx s).reverse.find? (fun j' => m j' == m j) with
  | none =>
    have := List.find?_eq_none.mp hf j hmem
    simp at this
  | some j' =>
    have h1 := List.find?_some hf
    have h2 := List.mem_of_find?_eq_some hf
    have hv : ValidIdx s j' := (mem_allIdx s j').mp (List.mem_reverse.mp h2)
    have : j' = j := hinj j' hv (by simpa using h1)
    simp [this]

/-- an unselected cell keeps its value -/
theorem setitemWith_miss (a b : NdArray α) (idx : List Idx) (val : List Nat → α) (s : List Nat) (m : List Nat → List Nat)
    (hm : getitemMap a.shape idx = some (s, m)) (hb : setitemWith a idx val = some b)
    (i : List Nat) (hi : ValidIdx a.shape i) (hmiss : ∀ j, ValidIdx s j → m j ≠ i) :
    b.get i = a.get i := by
  unfold setitemWith at hb
  rw [hm] at hb
  simp only [Option.bind_eq_bind, Option.bind_some, Option.pure_def, Option.some.injEq] at hb
  subst hb
  rw [get_ofFn _ _ _ hi]
  cases hf : (allIdx s).reverse.find? (fun j' => m j' == i) with
  | none => rfl
  | some j' =>
    have h1 := List.find?_some hf
    have h2 := List.mem_of_find?_eq_some hf
    have hv : ValidIdx s j' := (mem_allIdx s j').mp (List.mem_reverse.mp h2)
    exact absurd (by simpa using h1) (hmiss j' hv)

/-- **UTPM item assignment acts slice-wise**: with `m` the index map of `idx` on one coefficient slice
(injective on valid indices), `x[idx] = v` puts `v[d, p, broadcast j]` into cell `(d, p, m j)` -/
theorem utSetitem_hit (x v y : NdArray α) (D P : Nat) (s : List Nat) (idx : List Idx) (s' : List Nat) (m : List Nat → List Nat)
    (hx : x.shape = D :: P :: s) (hm : getitemMap s idx = some (s', m)) (hy : utSetitem x idx v = some y)
    (d p : Nat) (j : List Nat) (hd : d < D) (hp : p < P) (hj : ValidIdx s' j) (hmj : ValidIdx s (m j))
    (hinj : ∀ j', ValidIdx s' j' → m j' = m j → j' = j) :
    y.get (d :: p :: m j) = v.get (d :: p :: bidx (v.shape.drop 2) j) := by
  obtain ⟨m', hm', hlaw⟩ := getitemMap_prefix D P s idx s' m hm
  unfold utSetitem at hy
  have hmx : getitemMap x.shape (fullSl :: fullSl :: idx) = some (D :: P :: s', m') := by rw [hx]; exact hm'
  have hvj : ValidIdx (D :: P :: s') (d :: p :: j) := validIdx_cons2 D P s' j d p hd hp hj
  have hvi : ValidIdx x.shape (m' (d :: p :: j)) := by
    rw [hlaw, hx]; exact validIdx_cons2 D P s (m j) d p hd hp hmj
  have hinj' : ∀ j', ValidIdx (D :: P :: s') j' → m' j' = m' (d :: p :: j) → j' = d :: p :: j := by
    intro j' hv' he
    match j', hv' with
    | d' :: p' :: j'', hv'' =>
      rw [hlaw, hlaw] at he
      simp only [List.cons.injEq] at he
      obtain ⟨rfl, rfl, he3⟩ := he
      have hv3 : ValidIdx s' j'' := by
        simp only [ValidIdx] at hv''
        exact hv''.2.2
      rw [hinj j'' hv3 he3]
  have := (setitemWith_hit x y _ _ _ m' hmx hy (d :: p :: j) hvj hvi hinj').2
  rw [hlaw] at this
  exact this

/-- cells of a coefficient slice that the index does not select keep their value -/
theorem utSetitem_miss (x v y : NdArray α) (D P : Nat) (s : List Nat) (idx : List Idx) (s' : List Nat) (m : List Nat → List Nat)
    (hx : x.shape = D :: P :: s) (hm : getitemMap s idx = some (s', m)) (hy : utSetitem x idx v = some y)
    (d p : Nat) (i : List Nat) (hd : d < D) (hp : p < P) (hi : ValidIdx s i) (hmiss : ∀ j, ValidIdx s' j → m j ≠ i) :
    y.get (d :: p :: i) = x.get (d :: p :: i) := by
  obtain ⟨m', hm', hlaw⟩ := getitemMap_prefix D P s idx s' m hm
  unfold utSetitem at hy
  have hmx : getitemMap x.shape (fullSl :: fullSl :: idx) = some (D :: P :: s', m') := by rw [hx]; exact hm'
  refine setitemWith_miss x y _ _ _ m' hmx hy (d :: p :: i) (by rw [hx]; exact validIdx_cons2 D P s i d p hd hp hi) ?_
  intro j' hv' he
  match j', hv' with
  | d' :: p' :: j'', hv'' =>
    rw [hlaw] at he
    simp only [List.cons.injEq] at he
    have hv3 : ValidIdx s' j'' := by
      simp only [ValidIdx] at hv''
      exact hv''.2.2
    exact hmiss j'' hv3 he.2.2

/-- **assigning a constant sets the zeroth coefficient and clears all higher ones** -/
theorem utSetitemConst_hit [Zero α] (x c y : NdArray α) (D P : Nat) (s : List Nat) (idx : List Idx) (s' : List Nat)
    (m : List Nat → List Nat)
    (hx : x.shape = D :: P :: s) (hm : getitemMap s idx = some (s', m)) (hy : utSetitemConst x idx c = some y)
    (d p : Nat) (j : List Nat) (hd : d < D) (hp : p < P) (hj : ValidIdx s' j) (hmj : ValidIdx s (m j))
    (hinj : ∀ j', ValidIdx s' j' → m j' = m j → j' = j) :
    y.get (d :: p :: m j) = if d = 0 then c.get (bidx c.shape j) else 0 := by
  obtain ⟨m', hm', hlaw⟩ := getitemMap_prefix D P s idx s' m hm
  unfold utSetitemConst at hy
  have hmx : getitemMap x.shape (fullSl :: fullSl :: idx) = some (D :: P :: s', m') := by rw [hx]; exact hm'
  have hvj : ValidIdx (D :: P :: s') (d :: p :: j) := validIdx_cons2 D P s' j d p hd hp hj
  have hvi : ValidIdx x.shape (m' (d :: p :: j)) := by
    rw [hlaw, hx]; exact validIdx_cons2 D P s (m j) d p hd hp hmj
  have hinj' : ∀ j', ValidIdx (D :: P :: s') j' → m' j' = m' (d :: p :: j) → j' = d :: p :: j := by
    intro j' hv' he
    match j', hv' with
    | d' :: p' :: j'', hv'' =>
      rw [hlaw, hlaw] at he
      simp only [List.cons.injEq] at he
      obtain ⟨rfl, rfl, he3⟩ := he
      have hv3 : ValidIdx s' j'' := by
        simp only [ValidIdx] at hv''
        exact hv''.2.2
      rw [hinj j'' hv3 he3]
  have := (setitemWith_hit x y _ _ _ m' hmx hy (d :: p :: j) hvj hvi hinj').2
  rw [hlaw] at this
  exact this

end
end AV

/-! ## the index map of every basic index expression is injective -/
namespace AV
open NdArray

/-- a result axis never maps to a negative source coordinate, and strides are non-zero -/
def AxisOK : AxisMap → Prop
  | .run start step cnt => step ≠ 0 ∧ ∀ k : Nat, k < cnt → 0 ≤ start + step * (k : Int)
  | _ => True

theorem neg_step_nonneg (start T q : Int) (cnt k : Nat) (hq : 0 < q) (hT : -1 ≤ T)
    (hc : (if start > T then ((start - T + q - 1) / q).toNat else 0) = cnt) (hk : k < cnt) :
    0 ≤ start - q * (k : Int) := by
  by_cases hgt : start > T
  · rw [if_pos hgt] at hc
    have hk' : (k : Int) < (start - T + q - 1) / q := by
      have : (k : Int) < ((start - T + q - 1) / q).toNat := by rw [hc]; exact_mod_cast hk
      have hnn : 0 ≤ (start - T + q - 1) / q := Int.ediv_nonneg (by omega) (le_of_lt hq)
      rwa [Int.toNat_of_nonneg hnn] at this
    have h1 : q * ((start - T + q - 1) / q) ≤ start - T + q - 1 := Int.mul_ediv_self_le (ne_of_gt hq)
    have h2 : q * ((k : Int) + 1) ≤ q * ((start - T + q - 1) / q) := by
      apply Int.mul_le_mul_of_nonneg_left _ (le_of_lt hq)
      omega
    have h3 : q * ((k : Int) + 1) = q * (k : Int) + q := by ring
    omega
  · rw [if_neg hgt] at hc
    omega

theorem sliceIndices_ok (n : Nat) (lo hi step : Option Int) (start st : Int) (cnt : Nat)
    (h : sliceIndices n lo hi step = some (start, st, cnt)) : AxisOK (.run start st cnt) := by
  unfold sliceIndices at h
  simp only at h
  by_cases h0 : step.getD 1 = 0
  · simp [h0] at h
  · rw [if_neg h0] at h
    by_cases hpos : step.getD 1 > 0
    · rw [if_pos hpos] at h
      simp only [Option.some.injEq, Prod.mk.injEq] at h
      obtain ⟨hs, hst, _⟩ := h
      subst hst
      refine ⟨h0, fun k _ => ?_⟩
      have hs0 : 0 ≤ start := by
        rw [← hs]
        cases lo with
        | none => simp
        | some v => simp only; split_ifs <;> omega
      have : 0 ≤ step.getD 1 * (k : Int) := Int.mul_nonneg (le_of_lt hpos) (Int.natCast_nonneg k)
      omega
    · rw [if_neg hpos] at h
      simp only [Option.some.injEq, Prod.mk.injEq] at h
      obtain ⟨hs, hst, hc⟩ := h
      subst hst
      refine ⟨h0, fun k hk => ?_⟩
      have hneg : step.getD 1 < 0 := by omega
      rw [hs] at hc
      have key := neg_step_nonneg start _ (-(step.getD 1)) cnt k (by omega) ?_ hc hk
      · have : step.getD 1 * (k : Int) = -(-(step.getD 1) * (k : Int)) := by ring
        omega
      · cases hi with
        | none => simp
        | some v => simp only; split_ifs <;> omega

theorem planAxes_ok : ∀ (shape : List Nat) (idx : List Idx) (plan : List AxisMap),
    planAxes shape idx = some plan → ∀ a ∈ plan, AxisOK a := by
  intro shape idx
  induction idx generalizing shape with
  | nil =>
    intro plan h a ha
    cases shape with
    | nil => simp [planAxes] at h; subst h; simp at ha
    | cons n sh => simp [planAxes] at h
  | cons i rest ih =>
    intro plan h a ha
    cases i with
    | newaxis =>
      cases shape with
      | nil =>
        simp only [planAxes, Option.bind_eq_bind, Option.pure_def] at h
        cases hr : planAxes [] rest with
        | none => simp [hr] at h
        | some r =>
          simp [hr] at h; subst h
          rcases List.mem_cons.mp ha with rfl | ha'
          · trivial
          · exact ih [] r hr a ha'
      | cons n sh =>
        simp only [planAxes, Option.bind_eq_bind, Option.pure_def] at h
        cases hr : planAxes (n :: sh) rest with
        | none => simp [hr] at h
        | some r =>
          simp [hr] at h; subst h
          rcases List.mem_cons.mp ha with rfl | ha'
          · trivial
          · exact ih (n :: sh) r hr a ha'
    | int k =>
      cases shape with
      | nil => simp [planAxes] at h
      | cons n sh =>
        simp only [planAxes, Option.bind_eq_bind, Option.pure_def] at h
        cases hr : planAxes sh rest with
        | none =>
          simp only [hr, Option.bind_none] at h
          split_ifs at h
        | some r =>
          simp only [hr, Option.bind_some] at h
          split_ifs at h <;>
          · simp only [Option.some.injEq] at h
            subst h
            rcases List.mem_cons.mp ha with rfl | ha'
            · trivial
            · exact ih sh r hr a ha'
    | slice lo hi st =>
      cases shape with
      | nil => simp [planAxes] at h
      | cons n sh =>
        simp only [planAxes, Option.bind_eq_bind, Option.pure_def] at h
        cases hsl : sliceIndices n lo hi st with
        | none => simp [hsl] at h
        | some t =>
          obtain ⟨start, step, cnt⟩ := t
          cases hr : planAxes sh rest with
          | none => simp [hsl, hr] at h
          | some r =>
            simp [hsl, hr] at h; subst h
            rcases List.mem_cons.mp ha with rfl | ha'
            · exact sliceIndices_ok n lo hi st start step cnt hsl
            · exact ih sh r hr a ha'
    | ellipsis =>
      cases shape <;> simp [planAxes] at h

theorem planSrc_injective : ∀ (plan : List AxisMap), (∀ a ∈ plan, AxisOK a) →
    ∀ j j', ValidIdx (planShape plan) j → ValidIdx (planShape plan) j' → planSrc plan j = planSrc plan j' → j = j' := by
  intro plan
  induction plan with
  | nil =>
    intro _ j j' hj hj' _
    simp only [planShape, List.filterMap_nil] at hj hj'
    cases j <;> cases j' <;> simp_all [ValidIdx]
  | cons a rest ih =>
    intro hok j j' hj hj' he
    have hrest : ∀ b ∈ rest, AxisOK b := fun b hb => hok b (List.mem_cons_of_mem a hb)
    cases a with
    | fixed src =>
      simp only [planShape, List.filterMap_cons] at hj hj'
      simp only [planSrc, List.cons.injEq, true_and] at he
      exact ih hrest j j' hj hj' he
    | run start step cnt =>
      have hax := hok (.run start step cnt) (List.mem_cons_self)
      simp only [planShape, List.filterMap_cons] at hj hj'
      match j, j', hj, hj' with
      | k :: js, k' :: js', hj, hj' =>
        simp only [ValidIdx] at hj hj'
        simp only [planSrc, List.cons.injEq] at he
        have h1 := hax.2 k hj.1
        have h2 := hax.2 k' hj'.1
        have he1 : start + step * (k : Int) = start + step * (k' : Int) := by
          have := he.1
          have e := congrArg (fun (z : Nat) => (z : Int)) this
          simp only [Int.toNat_of_nonneg h1, Int.toNat_of_nonneg h2] at e
          exact e
        have hk : (k : Int) = k' := by
          have : step * (k : Int) = step * (k' : Int) := by omega
          exact Int.eq_of_mul_eq_mul_left hax.1 this
        have hkk : k = k' := by exact_mod_cast hk
        subst hkk
        rw [ih hrest js js' hj.2 hj'.2 he.2]
    | newax =>
      simp only [planShape, List.filterMap_cons] at hj hj'
      match j, j', hj, hj' with
      | k :: js, k' :: js', hj, hj' =>
        simp only [ValidIdx] at hj hj'
        simp only [planSrc] at he
        have : k = k' := by omega
        subst this
        rw [ih hrest js js' hj.2 hj'.2 he]

/-- **every basic index expression selects each cell at most once** -/
theorem getitemMap_injective (shape : List Nat) (idx : List Idx) (s : List Nat) (m : List Nat → List Nat)
    (h : getitemMap shape idx = some (s, m)) :
    ∀ j j', ValidIdx s j → ValidIdx s j' → m j = m j' → j = j' := by
  unfold getitemMap at h
  simp only [Option.bind_eq_bind, Option.pure_def] at h
  cases he : expandEllipsis shape.length idx with
  | none => simp [he] at h
  | some idx' =>
    simp only [he, Option.bind_some] at h
    cases hp : planAxes shape idx' with
    | none => simp [hp] at h
    | some plan =>
      simp only [hp, Option.bind_some, Option.some.injEq, Prod.mk.injEq] at h
      obtain ⟨rfl, rfl⟩ := h
      exact planSrc_injective plan (planAxes_ok shape idx' plan hp)

end AV
