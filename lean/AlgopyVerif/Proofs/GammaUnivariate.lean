import AlgopyVerif.Model.Interp
import AlgopyVerif.Proofs.NthDeriv
import Mathlib.Algebra.Group.ForwardDiff
import Mathlib.RingTheory.Polynomial.Pochhammer
import Mathlib.Data.Nat.Choose.Cast
import Mathlib.Tactic.FieldSimp
import Mathlib.Tactic.Ring
import Mathlib.Algebra.BigOperators.Field
/-!
# The Γ identity of exact interpolation for one variable and EVERY degree

For `N = 1` the multi-index list is `[[d]]`, the ray is `d`, and
`Γ = γ(d, d) = (1/d!) Σ_{0<k≤d} (-1)^{d-k} C(d,k) C(d·k/k, d) (k/d)^d = d^{-d}`,
so `Γ · d^d = 1`: the `d`-th forward difference of `x^d` is `d!`.
-/
open Finset
namespace AV.Interp

/-- the `d`-th forward difference of `x ↦ x^d` at 0, as the alternating binomial sum -/
theorem alt_sum_pow (d : ℕ) :
    ∑ k ∈ range (d + 1), ((-1 : ℚ) ^ (d - k) * (d.choose k : ℚ) * (k : ℚ) ^ d) = (d.factorial : ℚ) := by
  have h := congrFun (fwdDiff_iter_eq_factorial (R := ℚ) (n := d)) 0
  rw [fwdDiff_iter_eq_sum_shift] at h
  simp only [zero_add, nsmul_eq_mul, mul_one, zsmul_eq_mul, Int.cast_mul, Int.cast_pow, Int.cast_neg,
    Int.cast_one, Int.cast_natCast] at h
  simpa using h

theorem foldl_mul_div (L : List ℕ) (f g : ℕ → ℚ) (a b : ℚ) :
    L.foldl (fun acc k => acc * (f k / g k)) (a / b) = (a * (L.map f).prod) / (b * (L.map g).prod) := by
  induction L generalizing a b with
  | nil => simp
  | cons k L ih =>
    simp only [List.foldl_cons, List.map_cons, List.prod_cons]
    rw [div_mul_div_comm, ih]
    ring_nf

theorem list_range_map_prod (f : ℕ → ℚ) (n : ℕ) : ((List.range n).map f).prod = ∏ k ∈ range n, f k := by
  induction n with
  | zero => simp
  | succ n ih => rw [List.range_succ, List.map_append, List.prod_append, ih, Finset.prod_range_succ]; simp

/-- `mybinomial(n, j)` with a natural upper argument is the binomial coefficient -/
theorem binomR_natCast (n j : ℕ) : binomR (n : ℚ) j = (n.choose j : ℚ) := by
  unfold binomR
  have h := foldl_mul_div (List.range j) (fun k => (n : ℚ) - (k : ℚ)) (fun k => (j : ℚ) - (k : ℚ)) 1 1
  simp only [div_one, one_mul] at h
  rw [h, list_range_map_prod, list_range_map_prod, ← descPochhammer_eval_eq_prod_range, ← descPochhammer_eval_eq_prod_range,
    descPochhammer_eval_eq_descFactorial, descPochhammer_eval_eq_descFactorial, Nat.descFactorial_self,
    Nat.cast_choose_eq_descPochhammer_div, descPochhammer_eval_eq_descFactorial]

theorem sgn_eq (m : ℕ) : (if m % 2 = 0 then (1 : ℚ) else -1) = (-1) ^ m := by
  rcases Nat.even_or_odd m with h | h
  · rw [if_pos (Nat.even_iff.mp h), h.neg_one_pow]
  · rw [if_neg (by rw [Nat.odd_iff.mp h]; decide), h.neg_one_pow]

theorem list_range_map_sum (f : ℕ → ℚ) (n : ℕ) : ((List.range n).map f).sum = ∑ k ∈ range n, f k := by
  induction n with
  | zero => simp
  | succ n ih => rw [List.range_succ, List.map_append, List.sum_append, ih, Finset.sum_range_succ]; simp

theorem foldl_add_eq_sum (l : List ℚ) (a : ℚ) : l.foldl (· + ·) a = a + l.sum := by
  induction l generalizing a with
  | nil => simp
  | cons x l ih => simp only [List.foldl_cons, List.sum_cons, ih]; ring

/-- one term of `γ(d, d)`: `k = [x+1]` -/
theorem alpha_one (d x : ℕ) (hx : x + 1 ≤ d) :
    alpha [d] [d] [x + 1] d = (-1 : ℚ) ^ (d - (x + 1)) * (d.choose (x + 1) : ℚ) * (((x + 1 : ℕ) : ℚ) / (d : ℚ)) ^ d := by
  have hne : ((x + 1 : ℕ) : ℚ) ≠ 0 := by exact_mod_cast Nat.succ_ne_zero x
  have hz : ((d : ℚ) * ((x + 1 : ℕ) : ℚ)) / ((x + 1 : ℕ) : ℚ) = (d : ℚ) := by field_simp
  simp only [alpha, miAbs, miBinom, List.foldl_cons, List.foldl_nil, zero_add, List.map_cons, List.map_nil,
    List.zipWith_cons_cons, List.zipWith_nil_right, one_mul]
  rw [sgn_eq, hz, binomR_natCast, binomR_natCast, Nat.choose_self]
  push_cast
  ring

theorem box_single (d : ℕ) : box [d] = (List.range (d + 1)).map fun x => [x] := by
  simp only [box, List.map_cons, List.map_nil]
  induction (List.range (d + 1)) with
  | nil => rfl
  | cons a l ih => simp [List.flatMap_cons, ih]

theorem filter_box_single (d : ℕ) :
    ((box [d]).filter fun k => miAbs k ≠ 0) = (List.range d).map fun x => [x + 1] := by
  rw [box_single, List.range_succ_eq_map, List.map_cons, List.filter_cons]
  have h0 : ¬ (decide (miAbs [0] ≠ 0) = true) := by simp [miAbs]
  rw [if_neg h0, List.map_map, List.filter_eq_self.mpr]
  · rfl
  · intro k hk
    simp only [List.mem_map, Function.comp] at hk
    obtain ⟨x, _, rfl⟩ := hk
    simp [miAbs]

/-- `γ(d, d) = d^{-d}` for every degree `d ≥ 1` -/
theorem gamma_single (d : ℕ) (hd : 0 < d) : gamma [d] [d] = 1 / (d : ℚ) ^ d := by
  have hdq : (d : ℚ) ≠ 0 := by exact_mod_cast hd.ne'
  have hdeg : miAbs [d] = d := by simp [miAbs]
  have hfact : (miFact [d] : ℚ) = (d.factorial : ℚ) := by simp [miFact, fact_eq]
  unfold gamma
  simp only [hdeg]
  rw [filter_box_single, List.map_map, foldl_add_eq_sum, zero_add, hfact]
  have hterm : ∀ x ∈ List.range d, ((fun k => alpha [d] [d] k d) ∘ fun x => [x + 1]) x
      = (fun x => (-1 : ℚ) ^ (d - (x + 1)) * (d.choose (x + 1) : ℚ) * (((x + 1 : ℕ) : ℚ) / (d : ℚ)) ^ d) x := by
    intro x hx
    simp only [Function.comp]
    exact alpha_one d x (by simpa [List.mem_range] using hx)
  rw [List.map_congr_left hterm, list_range_map_sum]
  have hsum : ∑ x ∈ range d, ((-1 : ℚ) ^ (d - (x + 1)) * (d.choose (x + 1) : ℚ) * (((x + 1 : ℕ) : ℚ) / (d : ℚ)) ^ d)
      = (d.factorial : ℚ) / (d : ℚ) ^ d := by
    have h := alt_sum_pow d
    rw [Finset.sum_range_succ'] at h
    simp only [Nat.cast_zero, zero_pow hd.ne', mul_zero, add_zero] at h
    rw [← h, Finset.sum_div]
    refine Finset.sum_congr rfl fun x _ => ?_
    rw [div_pow]
    ring
  rw [hsum]
  have hf : (d.factorial : ℚ) ≠ 0 := by exact_mod_cast Nat.factorial_ne_zero d
  field_simp

/-- **the Γ identity for one variable and every degree**: `Σ_j Γ[i,j] · ray_j^α = δ(i, α)` on the model of
`exact_interpolation.py`, for `N = 1` and all `d ≥ 1` -/
theorem checkIdentity_one (d : ℕ) (hd : 0 < d) : checkIdentity 1 d = true := by
  have hdq : (d : ℚ) ≠ 0 := by exact_mod_cast hd.ne'
  have hpow : miPow [d] [d] = (d : ℚ) ^ d := by simp [miPow]
  unfold checkIdentity
  simp only [multiIndices, List.all_cons, List.all_nil, Bool.and_true, List.foldl_cons, List.foldl_nil, if_true, zero_add]
  rw [gamma_single d hd, hpow]
  have : 1 / (d : ℚ) ^ d * (d : ℚ) ^ d = 1 := by field_simp
  rw [this]
  decide

end AV.Interp
