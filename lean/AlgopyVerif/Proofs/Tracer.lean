import AlgopyVerif.Model.Tracer
import Mathlib.Tactic.Ring
import Mathlib.Data.List.Basic
/-!
# Proofs about the tracer state machine
-/
namespace AV.Tracer

theorem inv_init : Inv {} := by
  refine ⟨rfl, ?_, ?_⟩
  · intro i h; simp at h
  · intro nd h; simp at h

theorem step_inv (s : TState) (op : Op) (h : Inv s) (ha : op.ArgsBelow s.count) : Inv (step s op) := by
  obtain ⟨hc, hid, hargs⟩ := h
  cases op with
  | traceOff => exact ⟨hc, hid, hargs⟩
  | traceOn => exact ⟨hc, hid, hargs⟩
  | apply f args =>
    unfold step
    by_cases ht : s.tracing
    · simp only [ht, if_true]
      refine ⟨by simp [hc], ?_, ?_⟩
      · intro i hi
        simp only [List.length_append, List.length_singleton] at hi
        by_cases hlt : i < s.nodes.length
        · rw [List.getElem_append_left hlt]; exact hid i hlt
        · have : i = s.nodes.length := by omega
          subst this
          simp [hc]
      · intro nd hnd a ha'
        rcases List.mem_append.mp hnd with h1 | h1
        · exact hargs nd h1 a ha'
        · simp only [List.mem_singleton] at h1
          subst h1
          exact ha a ha'
    · simp only [ht]
      exact ⟨hc, hid, hargs⟩

/-- every op appends exactly one node while tracing is on, none while it is off -/
theorem step_length (s : TState) (op : Op) :
    (step s op).nodes.length =
      match op with
      | .apply _ _ => if s.tracing then s.nodes.length + 1 else s.nodes.length
      | _ => s.nodes.length := by
  cases op <;> simp [step]
  split <;> simp

/-- well-formed operation sequences: arguments exist when they are used -/
def WFOps : List Op → TState → Prop
  | [], _ => True
  | op :: ops, s => op.ArgsBelow s.count ∧ WFOps ops (step s op)

theorem run_inv (ops : List Op) (s : TState) (h : Inv s) (hw : WFOps ops s) : Inv (run ops s) := by
  induction ops generalizing s with
  | nil => exact h
  | cons op ops ih =>
    simp only [run, List.foldl_cons]
    exact ih (step s op) (step_inv s op h hw.1) hw.2

/-- nodes already recorded are never changed or reordered by later operations -/
theorem step_prefix (s : TState) (op : Op) : s.nodes <+: (step s op).nodes := by
  cases op <;> simp [step]
  split <;> simp

theorem run_prefix (ops : List Op) (s : TState) : s.nodes <+: (run ops s).nodes := by
  induction ops generalizing s with
  | nil => exact List.prefix_refl _
  | cons op ops ih =>
    simp only [run, List.foldl_cons]
    exact (step_prefix s op).trans (ih (step s op))

/-- nothing is recorded while tracing is off -/
theorem run_off (ops : List Op) (s : TState) (hoff : s.tracing = false)
    (hno : ∀ op ∈ ops, op ≠ Op.traceOn) : (run ops s).nodes = s.nodes := by
  induction ops generalizing s with
  | nil => rfl
  | cons op ops ih =>
    simp only [run, List.foldl_cons]
    have hs : (step s op).nodes = s.nodes ∧ (step s op).tracing = false := by
      cases op with
      | apply f a => simp [step, hoff]
      | traceOff => simp [step]
      | traceOn => exact absurd rfl (hno _ (List.mem_cons_self ..))
    have := ih (step s op) hs.2 (fun o ho => hno o (List.mem_cons_of_mem _ ho))
    simp only [run] at this
    rw [this, hs.1]

/-! ## writes: restore then re-apply gives back the forward values -/
variable {V : Type}

theorem upd_upd_self (h : Heap V) (d : Nat) (v : V) : upd (upd h d v) d (h d) = h := by
  funext i; unfold upd; split <;> simp_all

/-- the reverse sweep's restores, fed with the contents saved on *this* evaluation, bring the heap
back to the state before the first write -/
theorem undoAll_saved (ws : List (Nat × Nat)) (h : Heap V) :
    undoAll (ws.zip (saved ws h)) (wfwd ws h) = h := by
  induction ws generalizing h with
  | nil => rfl
  | cons w ws ih =>
    obtain ⟨d, s⟩ := w
    simp only [saved, wfwd, List.zip_cons_cons, undoAll]
    rw [ih (upd h d (h s))]
    exact upd_upd_self h d (h s)

/-- **a reverse sweep leaves every forward value intact** (restore, then re-apply the writes) -/
theorem sweep_preserves_values (ws : List (Nat × Nat)) (h : Heap V) :
    sweepValues ws (saved ws h) (wfwd ws h) = wfwd ws h := by
  unfold sweepValues
  rw [undoAll_saved]

/-- hence any number of sweeps after one forward evaluation see the same forward values -/
theorem sweeps_preserve_values (ws : List (Nat × Nat)) (h : Heap V) (k : Nat) :
    (fun H => sweepValues ws (saved ws h) H)^[k] (wfwd ws h) = wfwd ws h := by
  induction k with
  | zero => rfl
  | succ k ih => rw [Function.iterate_succ_apply', ih, sweep_preserves_values]

/-! ## general writes: the undo of the repaired `CGraph.pushforward` -/

theorem gundo_gsaved (ws : List (GWrite V)) (h : Heap V) : gundo (gsaved ws h) (gfwd ws h) = h := by
  induction ws generalizing h with
  | nil => rfl
  | cons w ws ih =>
    simp only [gsaved, gfwd, gundo]
    rw [ih (upd h w.d (w.g h))]
    exact upd_upd_self h w.d (w.g h)

/-- the state (heap, saved contents) reached by evaluating at the inputs `ins` from the heap `h0` -/
def evalState (ws : List (GWrite V)) (h0 : Heap V) (ins : List (Nat × V)) : Heap V × List (Nat × V) :=
  (gfwd ws (setIn ins h0), gsaved ws (setIn ins h0))

/-- inputs are set completely: what an earlier evaluation wrote into the input cells does not matter -/
def InputsCover (ins ins' : List (Nat × V)) : Prop :=
  ∀ h : Heap V, setIn ins (setIn ins' h) = setIn ins h

/-- **one evaluation after another**: undo + set inputs + run gives the state of a fresh evaluation from the recorded heap -/
theorem evalUndo_fresh (ws : List (GWrite V)) (h0 : Heap V) (ins' ins : List (Nat × V)) (hc : InputsCover ins ins') :
    evalUndo ws (evalState ws h0 ins') ins = evalState ws h0 ins := by
  unfold evalUndo evalState
  simp only
  rw [gundo_gsaved, hc h0]

/-- **any history**: after any sequence of evaluations (each setting all inputs) the evaluation at `ins` is the fresh one -/
theorem evalUndo_history (ws : List (GWrite V)) (h0 : Heap V) (first : List (Nat × V)) (hist : List (List (Nat × V)))
    (ins : List (Nat × V)) (hc : ∀ a b, a ∈ (first :: hist) ++ [ins] → b ∈ (first :: hist) ++ [ins] → InputsCover a b) :
    evalUndo ws (hist.foldl (evalUndo ws) (evalState ws h0 first)) ins = evalState ws h0 ins := by
  have key : ∀ (hist : List (List (Nat × V))) (first : List (Nat × V)),
      (∀ a b, a ∈ (first :: hist) → b ∈ (first :: hist) → InputsCover a b) →
      ∃ last, last ∈ first :: hist ∧ hist.foldl (evalUndo ws) (evalState ws h0 first) = evalState ws h0 last := by
    intro hist
    induction hist with
    | nil => intro first _; exact ⟨first, by simp, rfl⟩
    | cons x xs ih =>
      intro first hcov
      simp only [List.foldl_cons]
      rw [evalUndo_fresh ws h0 first x (hcov x first (by simp) (by simp))]
      obtain ⟨last, hl, he⟩ := ih x (fun a b ha hb => hcov a b (by simp at ha ⊢; tauto) (by simp at hb ⊢; tauto))
      exact ⟨last, by simp at hl ⊢; tauto, he⟩
  obtain ⟨last, hl, he⟩ := key hist first (fun a b ha hb => hc a b (by simp at ha ⊢; tauto) (by simp at hb ⊢; tauto))
  rw [he]
  exact evalUndo_fresh ws h0 last ins (hc ins last (by simp) (by simp at hl ⊢; tauto))

end AV.Tracer
