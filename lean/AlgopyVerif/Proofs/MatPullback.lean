import Mathlib.LinearAlgebra.Matrix.Trace
import Mathlib.LinearAlgebra.Matrix.NonsingularInverse
import Mathlib.Tactic.NoncommRing
import Mathlib.LinearAlgebra.Matrix.Charpoly.Coeff
/-!
# Local adjoint identities of the matrix pullback kernels (`_dot_pullback`, `_inv_pullback`,
`_solve_pullback`, `pb_trace`, transpose), over any commutative ring `S`

`S` is instantiated with the truncated series ring `ℝ[t]/(t^D)` (one direction): the entries of the
matrices are Taylor polynomials and every identity holds modulo `t^D`.  Pairing `⟪A, B⟫ = tr(Aᵀ B)`.
Each lemma has the form `⟪Ybar, dY⟫ = Σ ⟪Xbar_i, dX_i⟫` where `dY` is the tangent of the operation
and `Xbar_i` the formulas the kernels accumulate.
-/
open Matrix

namespace AV.MatPB
variable {S : Type} [CommRing S] {n m k : Type} [Fintype n] [Fintype m] [Fintype k]
  [DecidableEq n] [DecidableEq m] [DecidableEq k]

/-- `⟪A, B⟫ = tr(Aᵀ B) = Σ_ij A_ij B_ij` -/
def pair (A B : Matrix n m S) : S := (Aᵀ * B).trace

theorem pair_eq_sum (A B : Matrix n m S) : pair A B = ∑ i, ∑ j, A i j * B i j := by
  unfold pair
  simp only [Matrix.trace, Matrix.diag, Matrix.mul_apply, Matrix.transpose_apply]
  rw [Finset.sum_comm]

/-- `_dot_pullback`: `Z = X Y`, `dZ = dX Y + X dY`, `Xbar = Zbar Yᵀ`, `Ybar = Xᵀ Zbar` -/
theorem dot_adjoint (X dX : Matrix n m S) (Y dY : Matrix m k S) (Zbar : Matrix n k S) :
    pair Zbar (dX * Y + X * dY) = pair (Zbar * Yᵀ) dX + pair (Xᵀ * Zbar) dY := by
  unfold pair
  rw [Matrix.mul_add, Matrix.trace_add, Matrix.transpose_mul, Matrix.transpose_mul, Matrix.transpose_transpose,
    Matrix.transpose_transpose]
  congr 1
  · rw [← Matrix.mul_assoc, Matrix.trace_mul_comm, ← Matrix.mul_assoc]
  · simp only [Matrix.mul_assoc]

/-- tangent of the inverse: from `X Y = 1`, `Y X = 1` and the linearised identity `dX Y + X dY = 0` -/
theorem inv_tangent (X Y dX dY : Matrix n n S) (hYX : Y * X = 1) (hlin : dX * Y + X * dY = 0) :
    dY = -(Y * dX * Y) := by
  have : X * dY = -(dX * Y) := by
    have := hlin; rw [add_comm] at this; exact eq_neg_of_add_eq_zero_left this
  calc dY = (Y * X) * dY := by rw [hYX, Matrix.one_mul]
    _ = Y * (X * dY) := by rw [Matrix.mul_assoc]
    _ = -(Y * dX * Y) := by rw [this, Matrix.mul_neg, Matrix.mul_assoc]

/-- `_inv_pullback`: `Y = X⁻¹`, `dY = -Y dX Y`, `Xbar = -Yᵀ Ybar Yᵀ` -/
theorem inv_adjoint (Y dX Ybar : Matrix n n S) :
    pair Ybar (-(Y * dX * Y)) = pair (-(Yᵀ * (Ybar * Yᵀ))) dX := by
  unfold pair
  rw [Matrix.mul_neg, Matrix.trace_neg, Matrix.transpose_neg, Matrix.neg_mul, Matrix.trace_neg]
  congr 1
  simp only [Matrix.transpose_mul, Matrix.transpose_transpose]
  -- tr(Ybarᵀ Y dX Y) = tr(Y Ybarᵀ Y dX)
  rw [show Ybarᵀ * (Y * dX * Y) = (Ybarᵀ * Y * dX) * Y by simp only [Matrix.mul_assoc],
    Matrix.trace_mul_comm]
  simp only [Matrix.mul_assoc]

/-- tangent of `solve`: from `X Z = B` linearised, `dX Z + X dZ = dB` -/
theorem solve_tangent (X Y dX : Matrix n n S) (Z dZ dB : Matrix n k S) (hYX : Y * X = 1)
    (hlin : dX * Z + X * dZ = dB) : dZ = Y * (dB - dX * Z) := by
  have : X * dZ = dB - dX * Z := by rw [← hlin]; abel
  calc dZ = (Y * X) * dZ := by rw [hYX, Matrix.one_mul]
    _ = Y * (X * dZ) := by rw [Matrix.mul_assoc]
    _ = Y * (dB - dX * Z) := by rw [this]

/-- `_solve_pullback`: `T = Yᵀ Zbar` (`= solve(Xᵀ, Zbar)`), `Bbar = T`, `Xbar = -T Zᵀ` -/
theorem solve_adjoint (Y dX : Matrix n n S) (Z dB Zbar : Matrix n k S) :
    pair Zbar (Y * (dB - dX * Z)) = pair (Yᵀ * Zbar) dB + pair (-(Yᵀ * Zbar * Zᵀ)) dX := by
  unfold pair
  rw [Matrix.mul_sub, Matrix.mul_sub, Matrix.trace_sub, Matrix.transpose_mul, Matrix.transpose_transpose,
    Matrix.transpose_neg, Matrix.neg_mul, Matrix.trace_neg, sub_eq_add_neg]
  congr 1
  · simp only [Matrix.mul_assoc]
  · congr 1
    rw [Matrix.transpose_mul, Matrix.transpose_mul, Matrix.transpose_transpose, Matrix.transpose_transpose]
    rw [show Zbarᵀ * (Y * (dX * Z)) = (Zbarᵀ * Y * dX) * Z by simp only [Matrix.mul_assoc],
      Matrix.trace_mul_comm]
    simp only [Matrix.mul_assoc]

/-- `pb_trace`: `y = tr X`, `Xbar = ybar · I` -/
theorem trace_adjoint (dX : Matrix n n S) (ybar : S) :
    ybar * dX.trace = pair (ybar • (1 : Matrix n n S)) dX := by
  unfold pair
  rw [Matrix.transpose_smul, Matrix.transpose_one, Matrix.smul_mul, Matrix.one_mul, Matrix.trace_smul, smul_eq_mul]

/-- transpose: `Y = Xᵀ`, `Xbar = Ybarᵀ` -/
theorem transpose_adjoint (dX : Matrix n m S) (Ybar : Matrix m n S) : pair Ybar dXᵀ = pair Ybarᵀ dX := by
  unfold pair
  rw [Matrix.transpose_transpose, ← Matrix.transpose_mul, Matrix.trace_transpose, Matrix.trace_mul_comm]

/-- tangent of `det` (Jacobi's formula, algebraic form): for every increment `r • dX`,
`det (X + r dX) = det X + det X · tr(Y dX) · r + O(r²)` when `X Y = 1` -/
theorem det_tangent (X Y dX : Matrix n n S) (hXY : X * Y = 1) (r : S) :
    ∃ c : S, (X + r • dX).det = X.det + X.det * (Y * dX).trace * r + c * r ^ 2 := by
  have hfac : X + r • dX = X * (1 + r • (Y * dX)) := by
    rw [Matrix.mul_add, Matrix.mul_one, Matrix.mul_smul, ← Matrix.mul_assoc, hXY, Matrix.one_mul]
  refine ⟨X.det * (Polynomial.eval r (Matrix.det (1 + (Polynomial.X : Polynomial S) • (Y * dX).map Polynomial.C)).divX.divX), ?_⟩
  rw [hfac, Matrix.det_mul, Matrix.det_one_add_smul]
  ring

/-- `pb_det` (as a formula): `y = det X`, `Xbar = ybar · det X · Yᵀ` with `Y = X⁻¹` -/
theorem det_adjoint (X Y dX : Matrix n n S) (ybar : S) :
    ybar * (X.det * (Y * dX).trace) = pair ((ybar * X.det) • Yᵀ) dX := by
  unfold pair
  rw [Matrix.transpose_smul, Matrix.transpose_transpose, Matrix.smul_mul, Matrix.trace_smul, smul_eq_mul, mul_assoc]

end AV.MatPB
