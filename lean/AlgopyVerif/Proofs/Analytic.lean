import AlgopyVerif.Proofs.Taylor
import Mathlib.Analysis.SpecialFunctions.ExpDeriv
import Mathlib.Analysis.SpecialFunctions.Log.Deriv
import Mathlib.Analysis.SpecialFunctions.Sqrt
import Mathlib.Analysis.SpecialFunctions.Trigonometric.Deriv
import Mathlib.Analysis.Calculus.Deriv.Inv
/-!
# Analytic layer: the model's output is the Taylor expansion of `f ∘ x̂` at 0

Each instance = smoothness of the composite + its differential identity + the
coefficient recurrence of the model + strong induction.
-/
open Polynomial Filter Topology
open scoped ContDiff

namespace AV

theorem tc_neg (f : ℝ → ℝ) (n : ℕ) : tc (-f) n = - tc f n := by
  unfold tc
  rw [iteratedDeriv_neg]
  simp [neg_div]

theorem tc_const (c : ℝ) (n : ℕ) : tc (fun _ => c) n = if n = 0 then c else 0 := by
  have : (fun _ : ℝ => c) = fun t => (C c : ℝ[X]).eval t := by ext t; simp
  rw [this, tc_poly, coeff_C]

theorem Smooth0.neg {f : ℝ → ℝ} (hf : Smooth0 f) : Smooth0 (-f) := ContDiffAt.neg hf

/-! ## exp -/
theorem smooth0_exp_curve (x : List ℝ) : Smooth0 (fun t => Real.exp (curve x t)) :=
  (Real.contDiff_exp.contDiffAt).comp 0 (smooth0_curve x)

theorem deriv_exp_curve (x : List ℝ) :
    deriv (fun t => Real.exp (curve x t)) = deriv (curve x) * fun t => Real.exp (curve x t) := by
  ext t
  rw [(hasDerivAt_curve x t).exp.deriv]
  simp [mul_comm]

theorem exp_taylor (x : List ℝ) : ∀ d, d < x.length →
    co (expS (Real.exp (co x 0)) x) d = tc (fun t => Real.exp (curve x t)) d := by
  intro d
  induction d using Nat.strong_induction_on with
  | _ d ih =>
    intro hd
    cases d with
    | zero => rw [expS_zero _ _ hd, tc_zero, curve_zero]
    | succ d =>
      have hne : ((d + 1 : ℕ) : ℝ) ≠ 0 := by exact_mod_cast Nat.succ_ne_zero d
      apply mul_left_cancel₀ hne
      rw [expS_succ _ _ _ hd,
        tc_of_deriv_eq_curve_mul x (smooth0_exp_curve x) (by rw [deriv_exp_curve])]
      apply Finset.sum_congr rfl
      intro i hi
      have hi' : i < d + 1 := Finset.mem_range.mp hi
      rw [ih (d - i) (by omega) (by omega)]

/-! ## sin / cos -/
theorem smooth0_sin_curve (x : List ℝ) : Smooth0 (fun t => Real.sin (curve x t)) :=
  (Real.contDiff_sin.contDiffAt).comp 0 (smooth0_curve x)
theorem smooth0_cos_curve (x : List ℝ) : Smooth0 (fun t => Real.cos (curve x t)) :=
  (Real.contDiff_cos.contDiffAt).comp 0 (smooth0_curve x)

theorem deriv_sin_curve (x : List ℝ) :
    deriv (fun t => Real.sin (curve x t)) = deriv (curve x) * fun t => Real.cos (curve x t) := by
  ext t
  rw [(hasDerivAt_curve x t).sin.deriv]
  simp [mul_comm]

theorem deriv_cos_curve (x : List ℝ) :
    deriv (fun t => Real.cos (curve x t)) = deriv (curve x) * -(fun t => Real.sin (curve x t)) := by
  ext t
  rw [(hasDerivAt_curve x t).cos.deriv]
  simp [mul_comm]

theorem sincos_taylor (x : List ℝ) : ∀ d, d < x.length →
    co (sincosS (Real.sin (co x 0)) (Real.cos (co x 0)) x).1 d = tc (fun t => Real.sin (curve x t)) d
    ∧ co (sincosS (Real.sin (co x 0)) (Real.cos (co x 0)) x).2 d = tc (fun t => Real.cos (curve x t)) d := by
  intro d
  induction d using Nat.strong_induction_on with
  | _ d ih =>
    intro hd
    cases d with
    | zero =>
      have := sincosS_zero (Real.sin (co x 0)) (Real.cos (co x 0)) x hd
      rw [this.1, this.2, tc_zero, tc_zero, curve_zero]
      exact ⟨rfl, rfl⟩
    | succ d =>
      have hne : ((d + 1 : ℕ) : ℝ) ≠ 0 := by exact_mod_cast Nat.succ_ne_zero d
      have hs := sincosS_succ (Real.sin (co x 0)) (Real.cos (co x 0)) x d hd
      constructor
      · apply mul_left_cancel₀ hne
        rw [hs.1, tc_of_deriv_eq_curve_mul x (smooth0_cos_curve x) (by rw [deriv_sin_curve])]
        apply Finset.sum_congr rfl
        intro i hi
        have hi' : i < d + 1 := Finset.mem_range.mp hi
        rw [(ih (d - i) (by omega) (by omega)).2]
      · apply mul_left_cancel₀ hne
        rw [hs.2, tc_of_deriv_eq_curve_mul x (smooth0_sin_curve x).neg (by rw [deriv_cos_curve])]
        apply Finset.sum_congr rfl
        intro i hi
        have hi' : i < d + 1 := Finset.mem_range.mp hi
        rw [(ih (d - i) (by omega) (by omega)).1, tc_neg]
        ring

/-! ## log (x₀ > 0) -/
theorem curve_ne_zero_eventually (x : List ℝ) (h : co x 0 ≠ 0) : ∀ᶠ t in 𝓝 (0:ℝ), curve x t ≠ 0 := by
  have hc : ContinuousAt (curve x) 0 := (smooth0_curve x).continuousAt
  have : curve x 0 ≠ 0 := by rw [curve_zero]; exact h
  exact hc.eventually_ne this

theorem curve_pos_eventually (x : List ℝ) (h : 0 < co x 0) : ∀ᶠ t in 𝓝 (0:ℝ), 0 < curve x t := by
  have hc : ContinuousAt (curve x) 0 := (smooth0_curve x).continuousAt
  have : 0 < curve x 0 := by rw [curve_zero]; exact h
  exact hc.eventually (lt_mem_nhds this)

theorem smooth0_log_curve (x : List ℝ) (h : co x 0 ≠ 0) : Smooth0 (fun t => Real.log (curve x t)) :=
  ContDiffAt.log (smooth0_curve x) (by rw [curve_zero]; exact h)

theorem log_taylor (x : List ℝ) (hx : co x 0 ≠ 0) : ∀ d, d < x.length →
    co (logS (Real.log (co x 0)) x) d = tc (fun t => Real.log (curve x t)) d := by
  set Y : ℝ → ℝ := fun t => Real.log (curve x t) with hY
  have hsm : Smooth0 Y := smooth0_log_curve x hx
  have hode : deriv Y * curve x =ᶠ[𝓝 0] deriv (curve x) := by
    filter_upwards [curve_ne_zero_eventually x hx] with t ht
    have : deriv Y t = deriv (curve x) t / curve x t := ((hasDerivAt_curve x t).log ht).deriv
    simp only [Pi.mul_apply, this]
    field_simp
  intro d
  induction d using Nat.strong_induction_on with
  | _ d ih =>
    intro hd
    cases d with
    | zero => rw [logS_zero _ _ hd, tc_zero, hY]; simp only [curve_zero]
    | succ d =>
      have hne : ((d + 1 : ℕ) : ℝ) ≠ 0 := by exact_mod_cast Nat.succ_ne_zero d
      apply mul_left_cancel₀ hne
      apply mul_left_cancel₀ hx
      rw [logS_succ _ x hx d hd]
      have hB := tc_of_deriv_mul_eq_curve x hsm (smooth0_curve x) hode d
      rw [Finset.sum_range_succ, Nat.sub_self, tc_curve] at hB
      have e : ∑ j ∈ Finset.range d, co x (d - j) * (((1 + j : ℕ) : ℝ) * co (logS (Real.log (co x 0)) x) (1 + j))
          = ∑ i ∈ Finset.range d, ((i + 1 : ℕ) : ℝ) * tc Y (i + 1) * tc (curve x) (d - i) := by
        apply Finset.sum_congr rfl
        intro j hj
        have hj' : j < d := Finset.mem_range.mp hj
        rw [ih (1 + j) (by omega) (by omega), tc_curve, Nat.add_comm 1 j]
        ring
      rw [e]
      linarith

/-! ## sqrt (x₀ > 0) -/
theorem smooth0_sqrt_curve (x : List ℝ) (h : co x 0 ≠ 0) : Smooth0 (fun t => Real.sqrt (curve x t)) :=
  ContDiffAt.sqrt (smooth0_curve x) (by rw [curve_zero]; exact h)

theorem sqrt_taylor (x : List ℝ) (hx : 0 < co x 0) : ∀ d, d < x.length →
    co (sqrtS (Real.sqrt (co x 0)) x) d = tc (fun t => Real.sqrt (curve x t)) d := by
  set Y : ℝ → ℝ := fun t => Real.sqrt (curve x t) with hY
  have hsm : Smooth0 Y := smooth0_sqrt_curve x (ne_of_gt hx)
  have hy0 : Real.sqrt (co x 0) ≠ 0 := ne_of_gt (Real.sqrt_pos.mpr hx)
  have hsq : Y * Y =ᶠ[𝓝 0] curve x := by
    filter_upwards [curve_pos_eventually x hx] with t ht
    simp only [Pi.mul_apply, hY]
    exact Real.mul_self_sqrt (le_of_lt ht)
  have hconv : ∀ n, ∑ k ∈ Finset.range (n + 1), tc Y k * tc Y (n - k) = co x n := by
    intro n
    rw [← tc_mul_at hsm hsm, tc_congr hsq, tc_curve]
  intro d
  induction d using Nat.strong_induction_on with
  | _ d ih =>
    intro hd
    cases d with
    | zero => rw [sqrtS_zero _ _ hd, tc_zero, hY]; simp only [curve_zero]
    | succ d =>
      rw [sqrtS_succ _ _ _ hd]
      have hc := hconv (d + 1)
      rw [Finset.sum_range_succ, Finset.sum_range_succ', Nat.sub_self, Nat.sub_zero] at hc
      have hY0 : tc Y 0 = Real.sqrt (co x 0) := by rw [tc_zero, hY]; simp only [curve_zero]
      have e : ∑ j ∈ Finset.range d, co (sqrtS (Real.sqrt (co x 0)) x) (1 + j) * co (sqrtS (Real.sqrt (co x 0)) x) (d - j)
          = ∑ k ∈ Finset.range d, tc Y (k + 1) * tc Y (d + 1 - (k + 1)) := by
        apply Finset.sum_congr rfl
        intro j hj
        have hj' : j < d := Finset.mem_range.mp hj
        rw [ih (1 + j) (by omega) (by omega), ih (d - j) (by omega) (by omega), Nat.add_comm 1 j]
        congr 2
        omega
      rw [e]
      rw [hY0] at hc
      field_simp
      linarith

/-! ## reciprocal (x₀ ≠ 0) -/
theorem recip_taylor (x : List ℝ) (hx : co x 0 ≠ 0) : ∀ d, d < x.length →
    co (recipS x) d = tc (fun t => (curve x t)⁻¹) d := by
  set Y : ℝ → ℝ := fun t => (curve x t)⁻¹ with hY
  have hsm : Smooth0 Y := ContDiffAt.inv (smooth0_curve x) (by rw [curve_zero]; exact hx)
  have hone : Y * curve x =ᶠ[𝓝 0] fun _ => (1:ℝ) := by
    filter_upwards [curve_ne_zero_eventually x hx] with t ht
    simp only [Pi.mul_apply, hY]
    exact inv_mul_cancel₀ ht
  have hconv : ∀ n, ∑ k ∈ Finset.range (n + 1), tc Y k * co x (n - k) = if n = 0 then 1 else 0 := by
    intro n
    rw [← tc_const 1 n, ← tc_congr hone, tc_mul_at hsm (smooth0_curve x)]
    apply Finset.sum_congr rfl
    intro k _
    rw [tc_curve]
  intro d
  induction d using Nat.strong_induction_on with
  | _ d ih =>
    intro hd
    rw [recipS_co x d hd]
    have hc := hconv d
    rw [Finset.sum_range_succ, Nat.sub_self] at hc
    have e : ∑ k ∈ Finset.range d, co (recipS x) k * co x (d - k) = ∑ k ∈ Finset.range d, tc Y k * co x (d - k) := by
      apply Finset.sum_congr rfl
      intro k hk
      rw [ih k (Finset.mem_range.mp hk) (by have := Finset.mem_range.mp hk; omega)]
    rw [e]
    field_simp
    linarith

end AV

namespace AV
open Polynomial Filter Topology
open scoped ContDiff

/-! ## product and quotient of two curves -/
theorem mul_taylor (x y : List ℝ) (d : ℕ) (hd : d < x.length) :
    co (mulS x y) d = tc (curve x * curve y) d := by
  rw [mulS_co x y d hd, tc_mul_at (smooth0_curve x) (smooth0_curve y)]
  apply Finset.sum_congr rfl
  intro k _
  rw [tc_curve, tc_curve]

theorem div_taylor (x y : List ℝ) (hy : co y 0 ≠ 0) : ∀ d, d < x.length →
    co (divS x y) d = tc (fun t => curve x t / curve y t) d := by
  set Z : ℝ → ℝ := fun t => curve x t / curve y t with hZ
  have hsm : Smooth0 Z := ContDiffAt.div (smooth0_curve x) (smooth0_curve y) (by rw [curve_zero]; exact hy)
  have hmul : Z * curve y =ᶠ[𝓝 0] curve x := by
    filter_upwards [curve_ne_zero_eventually y hy] with t ht
    simp only [Pi.mul_apply, hZ]
    field_simp
  have hconv : ∀ n, ∑ k ∈ Finset.range (n + 1), tc Z k * co y (n - k) = co x n := by
    intro n
    rw [← tc_curve x n, ← tc_congr hmul, tc_mul_at hsm (smooth0_curve y)]
    apply Finset.sum_congr rfl
    intro k _
    rw [tc_curve]
  intro d
  induction d using Nat.strong_induction_on with
  | _ d ih =>
    intro hd
    rw [divS_co x y d hd]
    have hc := hconv d
    rw [Finset.sum_range_succ, Nat.sub_self] at hc
    have e : ∑ k ∈ Finset.range d, co (divS x y) k * co y (d - k) = ∑ k ∈ Finset.range d, tc Z k * co y (d - k) := by
      apply Finset.sum_congr rfl
      intro k hk
      rw [ih k (Finset.mem_range.mp hk) (by have := Finset.mem_range.mp hk; omega)]
    rw [e]
    field_simp
    linarith

end AV
