import AlgopyVerif.Proofs.Ode
/-!
# Truncation independence from the analytic layer

If `x` is a jet of `X` then so is every prefix `x.take m`; hence any kernel whose output is proved to
be the jet of `f ∘ X` returns, on the truncated input, a prefix of what it returns on the full input.
For `_eval_slow_generic` this is unconditional (every list of derivative leaves is realised by a
polynomial `f`).
-/
open Polynomial Filter Topology
open scoped ContDiff

namespace AV

theorem JetOf.take {x : List ℝ} {X : ℝ → ℝ} (hx : JetOf x X) (m : ℕ) : JetOf (x.take m) X :=
  ⟨hx.smooth, fun k hk => by
    have hk' : k < m ∧ k < x.length := by simpa [List.length_take] using hk
    rw [co_take x m k hk'.1, hx.coeff k hk'.2]⟩

/-- the polynomial `f` with `f⁽ᵈ⁾(a) = derivs[d]` for `d < n` -/
noncomputable def polyWithDerivs (derivs : List ℝ) (n : ℕ) (a : ℝ) : ℝ → ℝ :=
  fun y => curve ((List.range n).map fun d => co derivs d / (d.factorial : ℝ)) (y - a)

theorem polyWithDerivs_smooth (derivs : List ℝ) (n : ℕ) (a b : ℝ) : ContDiffAt ℝ ∞ (polyWithDerivs derivs n a) b := by
  unfold polyWithDerivs curve
  have h1 : ContDiff ℝ ∞ (fun t => (polyOf ((List.range n).map fun d => co derivs d / (d.factorial : ℝ))).eval t) := by
    simpa using (polyOf ((List.range n).map fun d => co derivs d / (d.factorial : ℝ))).contDiff_aeval (𝕜 := ℝ) ∞
  exact (h1.comp (contDiff_id.sub contDiff_const)).contDiffAt

theorem polyWithDerivs_iteratedDeriv (derivs : List ℝ) (n : ℕ) (a : ℝ) (d : ℕ) (hd : d < n) :
    iteratedDeriv d (polyWithDerivs derivs n a) a = co derivs d := by
  unfold polyWithDerivs
  rw [iteratedDeriv_comp_sub_const]
  simp only [sub_self]
  have h := tc_curve ((List.range n).map fun d => co derivs d / (d.factorial : ℝ)) d
  unfold tc at h
  rw [co_map_range _ _ _ hd] at h
  have hne : ((d.factorial : ℕ) : ℝ) ≠ 0 := by exact_mod_cast Nat.factorial_ne_zero d
  field_simp at h
  exact h

/-- C12 for `_eval_slow_generic` over ℝ: computing with `D' = m` coefficients gives the first `m`
coefficients of the computation with `D` coefficients, for every list of derivative leaves -/
theorem slowGenericS_take_co (derivs x : List ℝ) (m : ℕ) (hm : m ≤ x.length) (d : ℕ) (hd : d < m) :
    co (slowGenericS derivs (x.take m)) d = co (slowGenericS derivs x) d := by
  set f := polyWithDerivs derivs x.length (co x 0)
  have hx := jetOf_curve x
  have hf : ContDiffAt ℝ ∞ f (curve x 0) := polyWithDerivs_smooth _ _ _ _
  have hder : ∀ k, k < x.length → co derivs k = iteratedDeriv k f (curve x 0) := by
    intro k hk
    rw [curve_zero]
    exact (polyWithDerivs_iteratedDeriv derivs x.length (co x 0) k hk).symm
  have hfull := slowGeneric_jet hx f hf derivs hder
  have htr := slowGeneric_jet (hx.take m) f hf derivs (fun k hk => hder k (by
    have : k < m ∧ k < x.length := by simpa [List.length_take] using hk
    exact this.2))
  have l1 := slowGenericS_length derivs x
  have l2 := slowGenericS_length derivs (x.take m)
  rw [htr.coeff d (by rw [l2, List.length_take]; omega), hfull.coeff d (by rw [l1]; omega)]

end AV
