import AlgopyVerif.Proofs.Build
/-!
# Coefficient characterisation of the L0 recurrences (formal layer of C01/C02)

Each lemma states the defining convolution identity that the model's output satisfies,
over any field of characteristic 0 (so for real and complex coefficients).
-/
namespace AV
open Finset

section
variable {K : Type} [Field K]

theorem nat_eq (n : Nat) : (nat n : K) = (n : K) := rfl

/-! ### mul: Cauchy product -/
theorem mulS_length (x y : List K) : (mulS x y).length = x.length := by simp [mulS]

theorem mulS_co (x y : List K) (d : Nat) (h : d < x.length) :
    co (mulS x y) d = ∑ k ∈ range (d+1), co x k * co y (d-k) := by
  unfold mulS
  rw [co_map_range _ _ _ h, sumRange_eq]
  simp

/-! ### div: `z * y = x` -/
theorem divS_length (x y : List K) : (divS x y).length = x.length := by simp [divS, build_length]

theorem divS_co (x y : List K) (d : Nat) (h : d < x.length) :
    co (divS x y) d = (1 / co y 0) * (co x d - ∑ k ∈ range d, co (divS x y) k * co y (d-k)) := by
  conv_lhs => unfold divS
  rw [co_build _ _ _ h]
  rw [divStep]
  simp only [build_length]
  rw [sumRange_eq]
  simp only [Nat.sub_zero, Nat.zero_add]
  congr 2
  apply sum_congr rfl
  intro k hk
  have hk' := mem_range.mp hk
  unfold divS
  rw [co_build_prefix _ x.length d k hk' (by omega)]

/-- the defining identity of the quotient: `Σ_{k≤d} z_k y_{d-k} = x_d` -/
theorem divS_mul (x y : List K) (hy : co y 0 ≠ 0) (d : Nat) (h : d < x.length) :
    ∑ k ∈ range (d+1), co (divS x y) k * co y (d-k) = co x d := by
  rw [sum_range_succ, Nat.sub_self, divS_co x y d h]
  field_simp
  ring

/-! ### reciprocal: `z * y = 1` -/
theorem recipS_co (y : List K) (d : Nat) (h : d < y.length) :
    co (recipS y) d = (1 / co y 0) *
      ((if d = 0 then 1 else 0) - ∑ k ∈ range d, co (recipS y) k * co y (d-k)) := by
  conv_lhs => unfold recipS
  rw [co_build _ _ _ h]
  rw [recipStep]
  simp only [build_length]
  rw [sumRange_eq]
  simp only [Nat.sub_zero, Nat.zero_add]
  congr 2
  apply sum_congr rfl
  intro k hk
  have hk' := mem_range.mp hk
  unfold recipS
  rw [co_build_prefix _ y.length d k hk' (by omega)]

theorem recipS_mul (y : List K) (hy : co y 0 ≠ 0) (d : Nat) (h : d < y.length) :
    ∑ k ∈ range (d+1), co (recipS y) k * co y (d-k) = if d = 0 then 1 else 0 := by
  rw [sum_range_succ, Nat.sub_self, recipS_co y d h]
  field_simp
  ring

/-! ### sqrt: `y * y = x` -/
theorem sqrtS_zero (y0 : K) (x : List K) (h : 0 < x.length) : co (sqrtS y0 x) 0 = y0 := by
  unfold sqrtS
  rw [co_build _ _ _ h]
  simp [build, sqrtStep]

theorem sqrtS_succ (y0 : K) (x : List K) (d : Nat) (h : d + 1 < x.length) :
    co (sqrtS y0 x) (d+1) = (1 / (2 * y0)) *
      (co x (d+1) - ∑ j ∈ range d, co (sqrtS y0 x) (1+j) * co (sqrtS y0 x) (d-j)) := by
  have h0 := sqrtS_zero y0 x (by omega)
  conv_lhs => unfold sqrtS
  rw [co_build _ _ _ h]
  rw [sqrtStep]
  simp only [build_length, Nat.succ_ne_zero, if_false, Nat.add_eq_zero_iff, and_false]
  rw [sumRange_eq]
  have e0 : co (build (sqrtStep y0 x) (d+1)) 0 = y0 := by
    rw [co_build_prefix _ x.length (d+1) 0 (by omega) (by omega)]; exact h0
  rw [e0]
  simp only [nat_eq, Nat.cast_ofNat, Nat.add_sub_cancel]
  congr 2
  apply sum_congr rfl
  intro j hj
  have hj' := mem_range.mp hj
  unfold sqrtS
  rw [co_build_prefix _ x.length (d+1) (1+j) (by omega) (by omega),
    co_build_prefix _ x.length (d+1) (d+1-(1+j)) (by omega) (by omega)]
  congr 2
  omega

/-- the defining identity of the square root: `Σ_{k≤d} y_k y_{d-k} = x_d` -/
theorem sqrtS_sq (y0 : K) (x : List K) [CharZero K] (hy : y0 ≠ 0) (hx : y0 * y0 = co x 0)
    (d : Nat) (h : d < x.length) :
    ∑ k ∈ range (d+1), co (sqrtS y0 x) k * co (sqrtS y0 x) (d-k) = co x d := by
  cases d with
  | zero => simp [sqrtS_zero y0 x h, hx]
  | succ d =>
    rw [sum_range_succ, sum_range_succ', Nat.sub_self, Nat.sub_zero, sqrtS_zero y0 x (by omega)]
    have hs := sqrtS_succ y0 x d h
    have e : ∑ k ∈ range d, co (sqrtS y0 x) (k+1) * co (sqrtS y0 x) (d+1-(k+1))
        = ∑ j ∈ range d, co (sqrtS y0 x) (1+j) * co (sqrtS y0 x) (d-j) := by
      apply sum_congr rfl
      intro j _
      rw [Nat.add_comm j 1]
      congr 2
      omega
    rw [e]
    set S := ∑ j ∈ range d, co (sqrtS y0 x) (1+j) * co (sqrtS y0 x) (d-j) with hS
    rw [hs]
    field_simp
    ring

/-! ### exp: `d y_d = Σ k x_k y_{d-k}` -/
theorem expS_zero (y0 : K) (x : List K) (h : 0 < x.length) : co (expS y0 x) 0 = y0 := by
  unfold expS
  rw [co_build _ _ _ h]
  simp [build, expStep]

theorem expS_succ [CharZero K] (y0 : K) (x : List K) (d : Nat) (h : d + 1 < x.length) :
    ((d + 1 : Nat) : K) * co (expS y0 x) (d+1)
      = ∑ i ∈ range (d+1), ((1 + i : Nat) : K) * co x (1+i) * co (expS y0 x) (d - i) := by
  have hne : ((d + 1 : Nat) : K) ≠ 0 := by exact_mod_cast Nat.succ_ne_zero d
  conv_lhs => unfold expS
  rw [co_build _ _ _ h]
  rw [expStep]
  simp only [build_length, Nat.succ_ne_zero, if_false, Nat.add_eq_zero_iff, and_false]
  rw [sumRange_eq, nat_eq, mul_div_cancel₀ _ hne]
  simp only [Nat.add_sub_cancel]
  apply sum_congr rfl
  intro i hi
  have hi' := mem_range.mp hi
  unfold expS
  rw [co_build_prefix _ x.length (d+1) (d+1-(1+i)) (by omega) (by omega), nat_eq]
  have : d + 1 - (1 + i) = d - i := by omega
  rw [this]
  ring

/-! ### log: `x_0 ỹ_d = d x_d − Σ_{j=1}^{d-1} x_{d-j} ỹ_j`, `y_d = ỹ_d / d` -/
theorem logS_zero (y0 : K) (x : List K) (h : 0 < x.length) : co (logS y0 x) 0 = y0 := by
  unfold logS
  simp only
  rw [co_map_range _ _ _ h]
  simp only [if_true]
  rw [co_build _ _ _ h]
  simp [build, logTildeStep]

theorem logS_succ [CharZero K] (y0 : K) (x : List K) (hx : co x 0 ≠ 0) (d : Nat) (h : d + 1 < x.length) :
    co x 0 * (((d + 1 : Nat) : K) * co (logS y0 x) (d+1))
      = ((d + 1 : Nat) : K) * co x (d+1)
        - ∑ j ∈ range d, co x (d - j) * (((1 + j : Nat) : K) * co (logS y0 x) (1+j)) := by
  -- first: ỹ_j = j y_j for 1 ≤ j < length
  have key : ∀ j, j + 1 < x.length →
      ((j + 1 : Nat) : K) * co (logS y0 x) (j+1) = co (build (logTildeStep y0 x) x.length) (j+1) := by
    intro j hj
    have hne : ((j + 1 : Nat) : K) ≠ 0 := by exact_mod_cast Nat.succ_ne_zero j
    unfold logS
    simp only
    rw [co_map_range _ _ _ hj]
    simp only [Nat.succ_ne_zero, if_false, Nat.add_eq_zero_iff, and_false, nat_eq]
    field_simp
  rw [key d h, co_build _ _ _ h]
  rw [logTildeStep]
  simp only [build_length, Nat.succ_ne_zero, if_false, Nat.add_eq_zero_iff, and_false]
  rw [sumRange_eq, nat_eq]
  simp only [Nat.add_sub_cancel]
  rw [mul_div_cancel₀ _ hx]
  rw [mul_comm (co x (d+1))]
  congr 1
  apply sum_congr rfl
  intro j hj
  have hj' := mem_range.mp hj
  rw [co_build_prefix _ x.length (d+1) (1+j) (by omega) (by omega)]
  have := key j (by omega)
  rw [Nat.add_comm 1 j, this]
  congr 2
  omega

/-! ### sincos -/
theorem sincosS_build_length (s0 c0 : K) (x : List K) :
    (build (sincosStep s0 c0 x) x.length).length = x.length := build_length _ _

theorem co_unzip_fst (l : List (K × K)) (d : Nat) : co l.unzip.1 d = (l.getD d (0,0)).1 := by
  unfold co
  simp only [List.unzip_eq_map, List.getD_eq_getElem?_getD, List.getElem?_map]
  cases l[d]? <;> rfl

theorem co_unzip_snd (l : List (K × K)) (d : Nat) : co l.unzip.2 d = (l.getD d (0,0)).2 := by
  unfold co
  simp only [List.unzip_eq_map, List.getD_eq_getElem?_getD, List.getElem?_map]
  cases l[d]? <;> rfl

theorem sincosS_zero (s0 c0 : K) (x : List K) (h : 0 < x.length) :
    co (sincosS s0 c0 x).1 0 = s0 ∧ co (sincosS s0 c0 x).2 0 = c0 := by
  unfold sincosS
  rw [co_unzip_fst, co_unzip_snd, build_getD _ _ _ h]
  simp [build, sincosStep]

theorem sincosS_succ [CharZero K] (s0 c0 : K) (x : List K) (d : Nat) (h : d + 1 < x.length) :
    ((d + 1 : Nat) : K) * co (sincosS s0 c0 x).1 (d+1)
        = ∑ i ∈ range (d+1), ((1 + i : Nat) : K) * co x (1+i) * co (sincosS s0 c0 x).2 (d - i)
    ∧ ((d + 1 : Nat) : K) * co (sincosS s0 c0 x).2 (d+1)
        = ∑ i ∈ range (d+1), -(((1 + i : Nat) : K) * co x (1+i) * co (sincosS s0 c0 x).1 (d - i)) := by
  have hne : ((d + 1 : Nat) : K) ≠ 0 := by exact_mod_cast Nat.succ_ne_zero d
  unfold sincosS
  simp only [co_unzip_fst, co_unzip_snd]
  rw [build_getD _ _ _ h]
  rw [sincosStep]
  simp only [build_length, Nat.succ_ne_zero, if_false, Nat.add_eq_zero_iff, and_false]
  rw [sumRange_eq, sumRange_eq, nat_eq, mul_div_cancel₀ _ hne, mul_div_cancel₀ _ hne]
  simp only [Nat.add_sub_cancel]
  constructor
  · apply sum_congr rfl
    intro i hi
    have hi' := mem_range.mp hi
    rw [build_getD_prefix _ x.length (d+1) (d+1-(1+i)) (by omega) (by omega), nat_eq]
    have : d + 1 - (1 + i) = d - i := by omega
    rw [this]
  · apply sum_congr rfl
    intro i hi
    have hi' := mem_range.mp hi
    rw [build_getD_prefix _ x.length (d+1) (d+1-(1+i)) (by omega) (by omega), nat_eq]
    have : d + 1 - (1 + i) = d - i := by omega
    rw [this]
    ring

end
end AV
