import AlgopyVerif.Proofs.Build
/-!
# Prefix stability of every L0 recurrence (helper lemmas for C12)

`(F x).take m = F (x.take m)`: output coefficient `d` depends only on input
coefficients of order `≤ d`.
-/
namespace AV

theorem build_congr {α} (s1 s2 : List α → α) (n : Nat)
    (h : ∀ acc, acc.length < n → s1 acc = s2 acc) : build s1 n = build s2 n := by
  induction n with
  | zero => rfl
  | succ n ih =>
    simp only [build]
    have h1 : build s1 n = build s2 n := ih (fun acc ha => h acc (by omega))
    rw [h1, h _ (by rw [build_length]; omega)]

theorem take_map_range {α} (n m : Nat) (h : m ≤ n) (f : Nat → α) :
    ((List.range n).map f).take m = (List.range m).map f := by
  rw [← List.map_take, List.take_range, Nat.min_eq_left h]

theorem map_range_congr {α} (n : Nat) (f g : Nat → α) (h : ∀ d, d < n → f d = g d) :
    (List.range n).map f = (List.range n).map g := by
  apply List.map_congr_left
  intro d hd
  exact h d (List.mem_range.mp hd)

/-- unzip commutes with take -/
theorem unzip_take {α β} (l : List (α × β)) (m : Nat) :
    ((l.take m).unzip) = ((l.unzip.1).take m, (l.unzip.2).take m) := by
  simp [List.unzip_eq_map, List.map_take]

section
variable {K : Type} [Field K]

theorem length_take_le' (x : List K) (m : Nat) (h : m ≤ x.length) : (x.take m).length = m := by
  simp [h]

/-! ### direct (non-recursive) kernels -/

theorem mulS_take (x y : List K) (m : Nat) (h : m ≤ x.length) :
    (mulS x y).take m = mulS (x.take m) (y.take m) := by
  unfold mulS
  rw [take_map_range _ _ h, length_take_le' x m h]
  apply map_range_congr
  intro d hd
  apply sumRange_congr
  intro k _ hk
  rw [co_take x m k (by omega), co_take y m (d-k) (by omega)]

theorem addS_take (x y : List K) (m : Nat) (h : m ≤ x.length) :
    (addS x y).take m = addS (x.take m) (y.take m) := by
  unfold addS
  rw [take_map_range _ _ h, length_take_le' x m h]
  apply map_range_congr
  intro d hd
  rw [co_take x m d hd, co_take y m d hd]

theorem subS_take (x y : List K) (m : Nat) (h : m ≤ x.length) :
    (subS x y).take m = subS (x.take m) (y.take m) := by
  unfold subS
  rw [take_map_range _ _ h, length_take_le' x m h]
  apply map_range_congr
  intro d hd
  rw [co_take x m d hd, co_take y m d hd]

theorem negS_take (x : List K) (m : Nat) : (negS x).take m = negS (x.take m) := by
  unfold negS; rw [List.map_take]

theorem scaleS_take (c : K) (x : List K) (m : Nat) : (scaleS c x).take m = scaleS c (x.take m) := by
  unfold scaleS; rw [List.map_take]

theorem squareS_take (x : List K) (m : Nat) (h : m ≤ x.length) :
    (squareS x).take m = squareS (x.take m) := by
  unfold squareS
  rw [take_map_range _ _ h, length_take_le' x m h]
  apply map_range_congr
  intro d hd
  have h1 : ∀ k, k ≤ d → co (x.take m) k = co x k := fun k hk => co_take x m k (by omega)
  simp only
  rw [h1 ((d+1)/2) (by omega)]
  have h2 : (sumRange 0 ((d+1)/2) fun k => (co (x.take m) k * co (x.take m) (d-k)) * nat 2)
      = sumRange 0 ((d+1)/2) fun k => (co x k * co x (d-k)) * nat 2 := by
    apply sumRange_congr
    intro k _ hk
    rw [h1 k (by omega), h1 (d-k) (by omega)]
  rw [h2]

theorem plusConstS_take (x : List K) (c : K) (m : Nat) (h : m ≤ x.length) :
    (plusConstS x c).take m = plusConstS (x.take m) c := by
  unfold plusConstS
  rw [take_map_range _ _ h, length_take_le' x m h]
  apply map_range_congr
  intro d hd
  rw [co_take x m d hd]
  by_cases h0 : d = 0
  · subst h0; rw [co_take x m 0 hd]
  · simp [h0]

theorem blackWhiteS_take (f0 : K) (fp x : List K) (m : Nat) (h : m ≤ x.length) :
    (blackWhiteS f0 fp x).take m = blackWhiteS f0 (fp.take m) (x.take m) := by
  unfold blackWhiteS
  rw [take_map_range _ _ h, length_take_le' x m h]
  apply map_range_congr
  intro d hd
  by_cases h0 : d = 0
  · simp [h0]
  · simp only [h0, if_false]
    congr 1
    apply sumRange_congr
    intro c _ hc
    rw [co_take x m (c+1) (by omega), co_take fp m (d-1-c) (by omega)]

theorem constS_take (c : K) (n m : Nat) (h : m ≤ n) : (constS c n).take m = constS c m := by
  unfold constS; rw [take_map_range _ _ h]

/-! ### `build`-based kernels: the step reads `x` only up to index `acc.length` -/

theorem divS_take (x y : List K) (m : Nat) (h : m ≤ x.length) :
    (divS x y).take m = divS (x.take m) (y.take m) := by
  unfold divS
  rw [build_take _ _ _ h, length_take_le' x m h]
  apply build_congr
  intro acc ha
  unfold divStep
  simp only
  rw [co_take y m 0 (by omega), co_take x m acc.length ha]
  congr 2
  apply sumRange_congr
  intro k _ hk
  rw [co_take y m (acc.length - k) (by omega)]

theorem recipS_take (y : List K) (m : Nat) (h : m ≤ y.length) :
    (recipS y).take m = recipS (y.take m) := by
  unfold recipS
  rw [build_take _ _ _ h, length_take_le' y m h]
  apply build_congr
  intro acc ha
  unfold recipStep
  simp only
  rw [co_take y m 0 (by omega)]
  congr 2
  apply sumRange_congr
  intro k _ hk
  rw [co_take y m (acc.length - k) (by omega)]

theorem sqrtS_take (y0 : K) (x : List K) (m : Nat) (h : m ≤ x.length) :
    (sqrtS y0 x).take m = sqrtS y0 (x.take m) := by
  unfold sqrtS
  rw [build_take _ _ _ h, length_take_le' x m h]
  apply build_congr
  intro acc ha
  unfold sqrtStep
  simp only
  rw [co_take x m acc.length ha]

theorem expS_take (y0 : K) (x : List K) (m : Nat) (h : m ≤ x.length) :
    (expS y0 x).take m = expS y0 (x.take m) := by
  unfold expS
  rw [build_take _ _ _ h, length_take_le' x m h]
  apply build_congr
  intro acc ha
  unfold expStep
  simp only
  split
  · rfl
  · congr 1
    apply sumRange_congr
    intro k _ hk
    rw [co_take x m k (by omega)]

theorem logTilde_take (y0 : K) (x : List K) (m : Nat) (h : m ≤ x.length) :
    build (logTildeStep y0 x) m = build (logTildeStep y0 (x.take m)) m := by
  apply build_congr
  intro acc ha
  unfold logTildeStep
  simp only
  split
  · rfl
  · rw [co_take x m acc.length ha, co_take x m 0 (by omega)]
    congr 2
    apply sumRange_congr
    intro j hj1 hj
    rw [co_take x m (acc.length - j) (by omega)]

theorem logS_take (y0 : K) (x : List K) (m : Nat) (h : m ≤ x.length) :
    (logS y0 x).take m = logS y0 (x.take m) := by
  unfold logS
  simp only
  rw [take_map_range _ _ h, length_take_le' x m h]
  apply map_range_congr
  intro d hd
  rw [← logTilde_take y0 x m h]
  have e0 : co (build (logTildeStep y0 x) x.length) 0 = co (build (logTildeStep y0 x) m) 0 :=
    (co_build_prefix _ _ _ _ (by omega) h).symm
  have ed : co (build (logTildeStep y0 x) x.length) d = co (build (logTildeStep y0 x) m) d :=
    (co_build_prefix _ _ _ _ hd h).symm
  rw [e0, ed]

theorem powRealS_take (r y0 : K) (x : List K) (m : Nat) (h : m ≤ x.length) :
    (powRealS r y0 x).take m = powRealS r y0 (x.take m) := by
  unfold powRealS
  rw [build_take _ _ _ h, length_take_le' x m h]
  apply build_congr
  intro acc ha
  unfold powRealStep
  simp only
  split
  · rfl
  · rw [co_take x m 0 (by omega)]
    congr 3
    · congr 1
      apply sumRange_congr
      intro k _ hk
      rw [co_take x m k (by omega)]
    · apply sumRange_congr
      intro k _ hk
      rw [co_take x m (acc.length - k) (by omega)]

end
end AV

namespace AV
section
variable {K : Type} [Field K]

/-- generic prefix lemma for a coupled (pair-valued) recurrence -/
theorem pair_take (stp : List K → List (K × K) → K × K) (x : List K) (m : Nat) (h : m ≤ x.length)
    (hs : ∀ acc : List (K × K), acc.length < m → stp x acc = stp (x.take m) acc) :
    (((build (stp x) x.length).unzip.1).take m, ((build (stp x) x.length).unzip.2).take m)
      = (build (stp (x.take m)) (x.take m).length).unzip := by
  rw [← unzip_take, build_take _ _ _ h, length_take_le' x m h, build_congr _ _ m hs]

theorem sincosStep_take (s0 c0 : K) (x : List K) (m : Nat) (acc : List (K × K)) (ha : acc.length < m) :
    sincosStep s0 c0 x acc = sincosStep s0 c0 (x.take m) acc := by
  unfold sincosStep
  simp only
  split
  · rfl
  · congr 2 <;> (apply sumRange_congr; intro k _ hk; rw [co_take x m k (by omega)])

theorem sinhcoshStep_take (s0 c0 : K) (x : List K) (m : Nat) (acc : List (K × K)) (ha : acc.length < m) :
    sinhcoshStep s0 c0 x acc = sinhcoshStep s0 c0 (x.take m) acc := by
  unfold sinhcoshStep
  simp only
  split
  · rfl
  · congr 2 <;> (apply sumRange_congr; intro k _ hk; rw [co_take x m k (by omega)])

theorem tansec2Step_take (y0 z0 : K) (x : List K) (m : Nat) (acc : List (K × K)) (ha : acc.length < m) :
    tansec2Step y0 z0 x acc = tansec2Step y0 z0 (x.take m) acc := by
  unfold tansec2Step
  simp only
  split
  · rfl
  · have e : (sumRange 1 (acc.length+1) fun k => nat k * co x k * ((acc.getD (acc.length-k) (0,0)).2))
        = sumRange 1 (acc.length+1) fun k => nat k * co (x.take m) k * ((acc.getD (acc.length-k) (0,0)).2) := by
      apply sumRange_congr; intro k _ hk; rw [co_take x m k (by omega)]
    rw [e]

theorem tanhsech2Step_take (y0 z0 : K) (x : List K) (m : Nat) (acc : List (K × K)) (ha : acc.length < m) :
    tanhsech2Step y0 z0 x acc = tanhsech2Step y0 z0 (x.take m) acc := by
  unfold tanhsech2Step
  simp only
  split
  · rfl
  · have e : (sumRange 1 (acc.length+1) fun k => nat k * co x k * ((acc.getD (acc.length-k) (0,0)).2))
        = sumRange 1 (acc.length+1) fun k => nat k * co (x.take m) k * ((acc.getD (acc.length-k) (0,0)).2) := by
      apply sumRange_congr; intro k _ hk; rw [co_take x m k (by omega)]
    rw [e]

theorem arcsinStep_take (y0 z0 : K) (x : List K) (m : Nat) (acc : List (K × K)) (ha : acc.length < m) :
    arcsinStep y0 z0 x acc = arcsinStep y0 z0 (x.take m) acc := by
  unfold arcsinStep
  simp only
  split
  · rfl
  · rw [co_take x m acc.length ha]
    congr 3
    apply sumRange_congr; intro k _ hk
    rw [co_take x m (acc.length - k) (by omega)]

theorem arctanStep_take (y0 : K) (x : List K) (m : Nat) (acc : List (K × K)) (ha : acc.length < m) :
    arctanStep y0 x acc = arctanStep y0 (x.take m) acc := by
  unfold arctanStep
  simp only
  split
  · rw [co_take x m 0 (by omega)]
  · rw [co_take x m acc.length ha]
    congr 3
    apply sumRange_congr; intro k _ hk
    rw [co_take x m k (by omega), co_take x m (acc.length - k) (by omega)]

theorem powNatS_take (r : Nat) (x : List K) (m : Nat) (h : m ≤ x.length) :
    (powNatS r x).take m = powNatS r (x.take m) := by
  match r with
  | 0 => simp only [powNatS]; rw [constS_take _ _ _ h, length_take_le' x m h]
  | 1 => rfl
  | 2 => exact squareS_take x m h
  | r+3 =>
    simp only [powNatS]
    generalize List.range (r+2) = l
    have key : ∀ (l : List Nat) (y : List K), y.length = x.length →
        (l.foldl (fun y _ => mulS x y) y).take m = l.foldl (fun y _ => mulS (x.take m) y) (y.take m) := by
      intro l
      induction l with
      | nil => intro y _; rfl
      | cons a l ih =>
        intro y hy
        simp only [List.foldl_cons]
        rw [ih (mulS x y) (by simp [mulS]), mulS_take x y m h]
    exact key l x rfl

end
end AV
