import AlgopyVerif.Proofs.Recurrence
import Mathlib.RingTheory.PowerSeries.Basic
import Mathlib.Tactic.LinearCombination
/-!
# Lists as truncated formal power series

`toPS x = Σ x_k X^k`.  `mulS` is the Cauchy product, `divS`/`recipS` solve
`z · y = x` / `z · y = 1` modulo `X^D`; ring laws of `R[t]/(t^D)` follow from those of
`K⟦X⟧`.
-/
open PowerSeries Finset

namespace AV
section
variable {K : Type} [Field K]

/-- the power series with coefficients `co x k` -/
noncomputable def toPS (x : List K) : K⟦X⟧ := PowerSeries.mk (co x)

@[simp] theorem coeff_toPS (x : List K) (d : ℕ) : coeff d (toPS x) = co x d := by
  simp [toPS]

theorem coeff_mul_range (f g : K⟦X⟧) (d : ℕ) :
    coeff d (f * g) = ∑ k ∈ range (d+1), coeff k f * coeff (d-k) g := by
  rw [PowerSeries.coeff_mul, Finset.Nat.sum_antidiagonal_eq_sum_range_succ (fun i j => coeff i f * coeff j g)]

/-- `mulS` is the Cauchy product -/
theorem mulS_cauchy (x y : List K) (d : ℕ) (h : d < x.length) :
    co (mulS x y) d = coeff d (toPS x * toPS y) := by
  rw [mulS_co x y d h, coeff_mul_range]
  simp

/-- `divS x y · y ≡ x` modulo `X^D` -/
theorem divS_spec (x y : List K) (hy : co y 0 ≠ 0) (d : ℕ) (h : d < x.length) :
    coeff d (toPS (divS x y) * toPS y) = co x d := by
  rw [coeff_mul_range]
  simpa using divS_mul x y hy d h

/-- `recipS y · y ≡ 1` modulo `X^D` -/
theorem recipS_spec (y : List K) (hy : co y 0 ≠ 0) (d : ℕ) (h : d < y.length) :
    coeff d (toPS (recipS y) * toPS y) = coeff d (1 : K⟦X⟧) := by
  rw [coeff_mul_range, PowerSeries.coeff_one]
  simpa using recipS_mul y hy d h

/-- two lists of the same length with the same coefficients are equal -/
theorem list_ext_co (x y : List K) (hl : x.length = y.length) (h : ∀ d, d < x.length → co x d = co y d) :
    x = y := by
  apply List.ext_getElem hl
  intro i h1 h2
  have := h i h1
  unfold co at this
  rw [List.getD_eq_getElem _ _ h1, List.getD_eq_getElem _ _ h2] at this
  exact this

theorem mulS_comm (x y : List K) (hl : x.length = y.length) : mulS x y = mulS y x := by
  apply list_ext_co _ _ (by simp [mulS_length, hl])
  intro d hd
  rw [mulS_length] at hd
  rw [mulS_cauchy x y d hd, mulS_cauchy y x d (hl ▸ hd), mul_comm]

/-- coefficients below `D` of a product only depend on coefficients below `D` of the factors -/
theorem coeff_mul_congr (f f' g g' : K⟦X⟧) (D : ℕ) (hf : ∀ k < D, coeff k f = coeff k f')
    (hg : ∀ k < D, coeff k g = coeff k g') (d : ℕ) (hd : d < D) :
    coeff d (f * g) = coeff d (f' * g') := by
  rw [coeff_mul_range, coeff_mul_range]
  apply sum_congr rfl
  intro k hk
  have := mem_range.mp hk
  rw [hf k (by omega), hg (d-k) (by omega)]

theorem mulS_assoc (x y z : List K) (hy : x.length = y.length) :
    mulS (mulS x y) z = mulS x (mulS y z) := by
  apply list_ext_co _ _ (by simp [mulS_length])
  intro d hd
  simp only [mulS_length] at hd
  rw [mulS_cauchy _ _ d (by simpa [mulS_length] using hd), mulS_cauchy _ _ d hd]
  rw [coeff_mul_congr (toPS (mulS x y)) (toPS x * toPS y) (toPS z) (toPS z) x.length
        (fun k hk => by rw [coeff_toPS, mulS_cauchy x y k hk]) (fun _ _ => rfl) d hd,
      coeff_mul_congr (toPS x) (toPS x) (toPS (mulS y z)) (toPS y * toPS z) x.length
        (fun _ _ => rfl) (fun k hk => by rw [coeff_toPS, mulS_cauchy y z k (hy ▸ hk)]) d hd,
      mul_assoc]

theorem addS_co (x y : List K) (d : ℕ) (h : d < x.length) : co (addS x y) d = co x d + co y d := by
  unfold addS; rw [co_map_range _ _ _ h]

theorem subS_co (x y : List K) (d : ℕ) (h : d < x.length) : co (subS x y) d = co x d - co y d := by
  unfold subS; rw [co_map_range _ _ _ h]

theorem mulS_add (x y z : List K) (hy : x.length = y.length) :
    mulS x (addS y z) = addS (mulS x y) (mulS x z) := by
  apply list_ext_co _ _ (by simp [mulS_length, addS])
  intro d hd
  simp only [mulS_length] at hd
  rw [mulS_co _ _ d hd, addS_co _ _ d (by simpa [mulS_length] using hd), mulS_co _ _ d hd, mulS_co _ _ d hd,
    ← sum_add_distrib]
  apply sum_congr rfl
  intro k hk
  have := mem_range.mp hk
  rw [addS_co y z (d-k) (by omega), mul_add]

/-- `(x / y) * y = x` in `R[t]/(t^D)` -/
theorem divS_mulS_cancel (x y : List K) (hy : co y 0 ≠ 0) : mulS (divS x y) y = x := by
  apply list_ext_co _ _ (by simp [mulS_length, divS_length])
  intro d hd
  simp only [mulS_length, divS_length] at hd
  rw [mulS_cauchy _ _ d (by simpa [divS_length] using hd), divS_spec x y hy d hd]

/-- uniqueness of the quotient: any `z` with `z · y ≡ x` is `divS x y` -/
theorem divS_unique (x y z : List K) (hy : co y 0 ≠ 0) (hz : z.length = x.length)
    (h : ∀ d, d < x.length → ∑ k ∈ range (d+1), co z k * co y (d-k) = co x d) :
    z = divS x y := by
  apply list_ext_co _ _ (by simp [divS_length, hz])
  intro d
  induction d using Nat.strong_induction_on with
  | _ d ih =>
    intro hd
    rw [hz] at hd
    have h1 := h d hd
    have h2 := divS_mul x y hy d hd
    rw [sum_range_succ, Nat.sub_self] at h1 h2
    have e : ∑ k ∈ range d, co z k * co y (d-k) = ∑ k ∈ range d, co (divS x y) k * co y (d-k) := by
      apply sum_congr rfl
      intro k hk
      have hk' := mem_range.mp hk
      rw [ih k hk' (by rw [hz]; omega)]
    rw [e] at h1
    have : co z d * co y 0 = co (divS x y) d * co y 0 := by linear_combination h1 - h2
    exact mul_right_cancel₀ hy this

end
end AV
