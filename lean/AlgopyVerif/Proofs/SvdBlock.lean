import Mathlib.Data.Matrix.ColumnRowPartitioned
import Mathlib.Data.Matrix.Block
import Mathlib.LinearAlgebra.Matrix.Trace
import Mathlib.Tactic.Ring
/-!
# `UTPM.svd` by reformulation to `eigh` (the Jordan–Wielandt matrix)

`UTPM.svd` (algopy/utpm/utpm.py) forms `B = [[0, A], [Aᵀ, 0]]`, calls `eigh(B)`, and takes `U₁ = Q[:M, :r]`, `V₁ = Q[M:, :r]`,
`s = λ[:K]` (the largest eigenvalues), `U = √2·U₁`, `V = √2·V₁`.  Over any commutative ring `S` (instantiate with `ℝ[t]/(t^D)`):

* `block_eigh_rows`: the eigen-equation `B·[U₁; V₁] = [U₁; V₁]·diag(σ)` (what `eigh` delivers, C08 `eigh_defining_equation`) is exactly
  the pair `A V₁ = U₁ diag(σ)`, `Aᵀ U₁ = V₁ diag(σ)`;
* `svd_equations`: hence `A V = U diag(σ)` and `Aᵀ U = V diag(σ)` for `U = c·U₁`, `V = c·V₁` (any scalar `c`, the code uses `√2`);
* `svd_reconstruct`: for a square matrix of full rank (`r = N`, `V Vᵀ = 1`) this gives `A = U diag(σ) Vᵀ`.
Orthogonality of `U` and `V` and the rank-deficient / rectangular completion by `qr_full` are checked on the implementation (C08).
-/
set_option linter.unusedSectionVars false
namespace AV.SvdBlock
open Matrix
variable {S : Type} [CommRing S] {m n r : Type} [Fintype m] [Fintype n] [Fintype r] [DecidableEq m] [DecidableEq n] [DecidableEq r]

theorem block_eigh_rows (A : Matrix m n S) (U1 : Matrix m r S) (V1 : Matrix n r S) (sig : r → S) :
    fromBlocks (0 : Matrix m m S) A Aᵀ (0 : Matrix n n S) * fromRows U1 V1 = fromRows U1 V1 * diagonal sig
      ↔ (A * V1 = U1 * diagonal sig ∧ Aᵀ * U1 = V1 * diagonal sig) := by
  rw [fromBlocks_mul_fromRows, fromRows_mul, fromRows_ext_iff]
  simp

theorem svd_equations (A : Matrix m n S) (U1 : Matrix m r S) (V1 : Matrix n r S) (sig : r → S) (c : S)
    (h : fromBlocks (0 : Matrix m m S) A Aᵀ (0 : Matrix n n S) * fromRows U1 V1 = fromRows U1 V1 * diagonal sig) :
    A * (c • V1) = (c • U1) * diagonal sig ∧ Aᵀ * (c • U1) = (c • V1) * diagonal sig := by
  obtain ⟨h1, h2⟩ := (block_eigh_rows A U1 V1 sig).mp h
  constructor
  · rw [Matrix.mul_smul, h1, Matrix.smul_mul]
  · rw [Matrix.mul_smul, h2, Matrix.smul_mul]

theorem svd_reconstruct (A U V : Matrix n n S) (sig : n → S) (h : A * V = U * diagonal sig) (hV : V * Vᵀ = 1) :
    A = U * diagonal sig * Vᵀ := by
  calc A = A * (V * Vᵀ) := by rw [hV, Matrix.mul_one]
    _ = (A * V) * Vᵀ := by rw [Matrix.mul_assoc]
    _ = U * diagonal sig * Vᵀ := by rw [h]

end AV.SvdBlock
