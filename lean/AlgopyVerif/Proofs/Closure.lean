import AlgopyVerif.Proofs.Power
/-!
# Closure of every proved kernel under composition, and the kink functions away from their kinks

`JetOf x X → JetOf (kernel x) (f ∘ X)` for log, sqrt, sin, cos, sinh, cosh, tan, tanh, arctan,
arcsin, arccos (exp, reciprocal, powers and the black/white family are in `Compose.lean`,
`Power.lean`).  With these, the value computed by any straight-line composition of kernels is the
jet of the composed function.
-/
open Polynomial Filter Topology
open scoped ContDiff

namespace AV

theorem unzip_fst_length {α β} (l : List (α × β)) : l.unzip.1.length = l.length := by simp
theorem unzip_snd_length {α β} (l : List (α × β)) : l.unzip.2.length = l.length := by simp

theorem JetOf.log {x : List ℝ} {X : ℝ → ℝ} (hx : JetOf x X) (h0 : X 0 ≠ 0) :
    JetOf (logS (Real.log (X 0)) x) (fun t => Real.log (X t)) :=
  hx.of_kernel Real.log (Real.contDiffAt_log.mpr h0) (by simp [logS]) (fun d hd => by
    rw [← hx.zero (by omega)]; exact log_taylor x (by rw [hx.zero (by omega)]; exact h0) d hd)

theorem JetOf.sqrt {x : List ℝ} {X : ℝ → ℝ} (hx : JetOf x X) (h0 : 0 < X 0) :
    JetOf (sqrtS (Real.sqrt (X 0)) x) (fun t => Real.sqrt (X t)) :=
  hx.of_kernel Real.sqrt (Real.contDiffAt_sqrt h0.ne') (by simp [sqrtS, build_length]) (fun d hd => by
    rw [← hx.zero (by omega)]; exact sqrt_taylor x (by rw [hx.zero (by omega)]; exact h0) d hd)

theorem JetOf.sin {x : List ℝ} {X : ℝ → ℝ} (hx : JetOf x X) :
    JetOf (sincosS (Real.sin (X 0)) (Real.cos (X 0)) x).1 (fun t => Real.sin (X t)) :=
  hx.of_kernel Real.sin Real.contDiff_sin.contDiffAt (by simp [sincosS, build_length]) (fun d hd => by
    rw [← hx.zero (by omega)]; exact (sincos_taylor x d hd).1)

theorem JetOf.cos {x : List ℝ} {X : ℝ → ℝ} (hx : JetOf x X) :
    JetOf (sincosS (Real.sin (X 0)) (Real.cos (X 0)) x).2 (fun t => Real.cos (X t)) :=
  hx.of_kernel Real.cos Real.contDiff_cos.contDiffAt (by simp [sincosS, build_length]) (fun d hd => by
    rw [← hx.zero (by omega)]; exact (sincos_taylor x d hd).2)

theorem JetOf.sinh {x : List ℝ} {X : ℝ → ℝ} (hx : JetOf x X) :
    JetOf (sinhcoshS (Real.sinh (X 0)) (Real.cosh (X 0)) x).1 (fun t => Real.sinh (X t)) :=
  hx.of_kernel Real.sinh Real.contDiff_sinh.contDiffAt (by simp [sinhcoshS, build_length]) (fun d hd => by
    rw [← hx.zero (by omega)]; exact (sinhcosh_taylor x d hd).1)

theorem JetOf.cosh {x : List ℝ} {X : ℝ → ℝ} (hx : JetOf x X) :
    JetOf (sinhcoshS (Real.sinh (X 0)) (Real.cosh (X 0)) x).2 (fun t => Real.cosh (X t)) :=
  hx.of_kernel Real.cosh Real.contDiff_cosh.contDiffAt (by simp [sinhcoshS, build_length]) (fun d hd => by
    rw [← hx.zero (by omega)]; exact (sinhcosh_taylor x d hd).2)

theorem JetOf.tan {x : List ℝ} {X : ℝ → ℝ} (hx : JetOf x X) (h0 : Real.cos (X 0) ≠ 0) :
    JetOf (tansec2S (Real.tan (X 0)) (1 / (Real.cos (X 0) * Real.cos (X 0))) x).1 (fun t => Real.tan (X t)) :=
  hx.of_kernel Real.tan (Real.contDiffAt_tan.mpr h0) (by simp [tansec2S, build_length]) (fun d hd => by
    rw [← hx.zero (by omega)]
    exact (tansec2_taylor x (by rw [hx.zero (by omega)]; exact h0) d hd).1)

theorem contDiffAt_tanh (a : ℝ) : ContDiffAt ℝ ∞ Real.tanh a := by
  have e : Real.tanh = fun y => Real.sinh y / Real.cosh y := by
    funext y; exact Real.tanh_eq_sinh_div_cosh y
  rw [e]
  exact Real.contDiff_sinh.contDiffAt.div Real.contDiff_cosh.contDiffAt (Real.cosh_pos a).ne'

theorem JetOf.tanh {x : List ℝ} {X : ℝ → ℝ} (hx : JetOf x X) :
    JetOf (tanhsech2S (Real.tanh (X 0)) (1 - Real.tanh (X 0) * Real.tanh (X 0)) x).1 (fun t => Real.tanh (X t)) :=
  hx.of_kernel Real.tanh (contDiffAt_tanh _) (by simp [tanhsech2S, build_length]) (fun d hd => by
    rw [← hx.zero (by omega)]; exact (tanhsech2_taylor x d hd).1)

theorem JetOf.arctan {x : List ℝ} {X : ℝ → ℝ} (hx : JetOf x X) :
    JetOf (arctanS (Real.arctan (X 0)) x).1 (fun t => Real.arctan (X t)) :=
  hx.of_kernel Real.arctan Real.contDiff_arctan.contDiffAt (by simp [arctanS, build_length]) (fun d hd => by
    rw [← hx.zero (by omega)]; exact (arctan_taylor x d hd).1)

theorem JetOf.arcsin {x : List ℝ} {X : ℝ → ℝ} (hx : JetOf x X) (h1 : -1 < X 0) (h2 : X 0 < 1) :
    JetOf (arcsinS (Real.arcsin (X 0)) (Real.cos (Real.arcsin (X 0))) x).1 (fun t => Real.arcsin (X t)) :=
  hx.of_kernel Real.arcsin (Real.contDiffAt_arcsin h1.ne' h2.ne) (by simp [arcsinS, build_length]) (fun d hd => by
    rw [← hx.zero (by omega)]
    exact (arcsin_taylor x (by rw [hx.zero (by omega)]; exact h1) (by rw [hx.zero (by omega)]; exact h2) d hd).1)

theorem JetOf.arccos {x : List ℝ} {X : ℝ → ℝ} (hx : JetOf x X) (h1 : -1 < X 0) (h2 : X 0 < 1) :
    JetOf (arcsinS (Real.arccos (X 0)) (-Real.sin (Real.arccos (X 0))) x).1 (fun t => Real.arccos (X t)) :=
  hx.of_kernel Real.arccos (Real.contDiffAt_arccos h1.ne' h2.ne) (by simp [arcsinS, build_length]) (fun d hd => by
    rw [← hx.zero (by omega)]
    exact (arccos_taylor x (by rw [hx.zero (by omega)]; exact h1) (by rw [hx.zero (by omega)]; exact h2) d hd).1)

theorem JetOf.div {x y : List ℝ} {X Y : ℝ → ℝ} (hx : JetOf x X) (hy : JetOf y Y) (hl : y.length = x.length)
    (h0 : Y 0 ≠ 0) : JetOf (mulS x (recipS y)) (fun t => X t / Y t) := by
  have := hx.mul (hy.recip h0) (by rw [recipS_length, hl])
  have e : (fun t => X t / Y t) = X * fun t => (Y t)⁻¹ := by funext t; simp [div_eq_mul_inv]
  rw [e]; exact this

/-! ### kink functions away from the kink -/
theorem JetOf.congr {x : List ℝ} {X Y : ℝ → ℝ} (hx : JetOf x X) (h : Y =ᶠ[𝓝 0] X) : JetOf x Y :=
  ⟨hx.smooth.congr h, fun k hk => by rw [hx.coeff k hk, tc_congr h]⟩

/-- `_absolute`: `z₀ = |x₀|`, `z_d = x_d · sign(x₀)` is the jet of `|X|` when `x₀ ≠ 0` -/
theorem abs_jet {x : List ℝ} {X : ℝ → ℝ} (hx : JetOf x X) (h0 : X 0 ≠ 0) :
    JetOf (absoluteS (SignType.sign (X 0) : ℝ) |X 0| x) (fun t => |X t|) := by
  rcases lt_or_gt_of_ne h0 with hneg | hpos
  · have hev : (fun t => |X t|) =ᶠ[𝓝 0] fun t => (-1) * X t := by
      filter_upwards [hx.smooth.continuousAt.eventually (gt_mem_nhds hneg)] with t ht
      rw [abs_of_neg ht]; ring
    have hj := (hx.scale (-1)).congr hev
    refine ⟨hj.smooth, fun k hk => ?_⟩
    have hk' : k < x.length := by simpa [absoluteS] using hk
    rw [← hj.coeff k (by simpa [scaleS] using hk')]
    unfold absoluteS scaleS
    rw [co_map_range _ _ _ hk']
    have hs : (SignType.sign (X 0) : ℝ) = -1 := by simp [sign_neg hneg]
    have hco : co (List.map (fun a => -1 * a) x) k = -1 * co x k := by
      unfold co
      rw [List.getD_eq_getElem?_getD, List.getD_eq_getElem?_getD, List.getElem?_map]
      simp [hk']
    rw [hco, hs]
    by_cases hk0 : k = 0
    · subst hk0; simp [hx.zero hk', abs_of_neg hneg]
    · simp [hk0]
  · have hev : (fun t => |X t|) =ᶠ[𝓝 0] X := by
      filter_upwards [hx.smooth.continuousAt.eventually (lt_mem_nhds hpos)] with t ht
      exact abs_of_pos ht
    have hj := hx.congr hev
    refine ⟨hj.smooth, fun k hk => ?_⟩
    have hk' : k < x.length := by simpa [absoluteS] using hk
    rw [← hj.coeff k hk']
    unfold absoluteS
    rw [co_map_range _ _ _ hk']
    have hs : (SignType.sign (X 0) : ℝ) = 1 := by simp [sign_pos hpos]
    rw [hs]
    by_cases hk0 : k = 0
    · subst hk0; simp [hx.zero hk', abs_of_pos hpos]
    · simp [hk0]

/-- `_sign`: the constant `sign(x₀)` is the jet of `sign ∘ X` when `x₀ ≠ 0` -/
theorem sign_jet {x : List ℝ} {X : ℝ → ℝ} (hx : JetOf x X) (h0 : X 0 ≠ 0) :
    JetOf (signS (SignType.sign (X 0) : ℝ) x) (fun t => (SignType.sign (X t) : ℝ)) := by
  have hev : (fun t => (SignType.sign (X t) : ℝ)) =ᶠ[𝓝 0] fun _ => (SignType.sign (X 0) : ℝ) := by
    rcases lt_or_gt_of_ne h0 with hneg | hpos
    · filter_upwards [hx.smooth.continuousAt.eventually (gt_mem_nhds hneg)] with t ht
      simp [sign_neg ht, sign_neg hneg]
    · filter_upwards [hx.smooth.continuousAt.eventually (lt_mem_nhds hpos)] with t ht
      simp [sign_pos ht, sign_pos hpos]
  exact (jetOf_const _ _).congr hev

/-- `_minimum` / `_maximum` with mask `1` (resp. `0`): the selected operand's jet, when `x₀ < y₀` -/
theorem min_jet {x y : List ℝ} {X Y : ℝ → ℝ} (hx : JetOf x X) (hy : JetOf y Y) (hl : y.length = x.length)
    (h : X 0 < Y 0) : JetOf (selectS 1 x y) (fun t => min (X t) (Y t)) ∧ JetOf (selectS 0 x y) (fun t => max (X t) (Y t)) := by
  have hlt : ∀ᶠ t in 𝓝 (0:ℝ), X t < Y t := by
    have hc : ContinuousAt (fun t => Y t - X t) 0 := (hy.smooth.sub hx.smooth).continuousAt
    have : (0:ℝ) < (fun t => Y t - X t) 0 := by simp only; linarith
    filter_upwards [hc.eventually (lt_mem_nhds this)] with t ht
    linarith
  constructor
  · have hev : (fun t => min (X t) (Y t)) =ᶠ[𝓝 0] X := by
      filter_upwards [hlt] with t ht
      exact min_eq_left ht.le
    have hj := hx.congr hev
    refine ⟨hj.smooth, fun k hk => ?_⟩
    have hk' : k < x.length := by simpa [selectS] using hk
    rw [← hj.coeff k hk']
    unfold selectS
    rw [co_map_range _ _ _ hk']
    ring
  · have hev : (fun t => max (X t) (Y t)) =ᶠ[𝓝 0] Y := by
      filter_upwards [hlt] with t ht
      exact max_eq_right ht.le
    have hj := hy.congr hev
    refine ⟨hj.smooth, fun k hk => ?_⟩
    have hk' : k < x.length := by simpa [selectS] using hk
    rw [← hj.coeff k (hl ▸ hk')]
    unfold selectS
    rw [co_map_range _ _ _ hk']
    ring

end AV
