import AlgopyVerif.Proofs.Compose
import Mathlib.Analysis.SpecialFunctions.Pow.Deriv
/-!
# Powers: `_pow_real` (general exponent branch) and the natural-exponent branches

Generic statement for the differential identity `X · Y' = r · Y · X'`, instantiated with
`Y = X ^ r` (`Real.rpow`, `x₀ > 0`) and `Y = X ^ n` (`n : ℤ`, `x₀ ≠ 0`).
-/
open Polynomial Filter Topology
open scoped ContDiff

namespace AV

theorem JetOf.powReal_generic {x : List ℝ} {X Y : ℝ → ℝ} (hx : JetOf x X) (r : ℝ) (hY : Smooth0 Y)
    (h0 : X 0 ≠ 0) (hode : X * deriv Y =ᶠ[𝓝 0] fun t => r * (Y t * deriv X t)) :
    JetOf (powRealS r (Y 0) x) Y := by
  refine ⟨hY, ?_⟩
  intro k
  induction k using Nat.strong_induction_on with
  | _ k ih =>
    intro hk
    rw [powRealS_length] at hk
    cases k with
    | zero => rw [powRealS_zero _ _ _ hk, tc_zero]
    | succ d =>
      have hne : ((d + 1 : ℕ) : ℝ) ≠ 0 := by exact_mod_cast Nat.succ_ne_zero d
      have hx0 : co x 0 ≠ 0 := by rw [hx.zero (by omega)]; exact h0
      apply mul_left_cancel₀ hne
      apply mul_left_cancel₀ hx0
      have hrec := powRealS_succ r (Y 0) x hx0 d hk
      have hL : tc (X * deriv Y) d = tc X 0 * (((d + 1 : ℕ) : ℝ) * tc Y (d + 1))
          + ∑ j ∈ Finset.range d, tc X (d - j) * (((1 + j : ℕ) : ℝ) * tc Y (1 + j)) := by
        rw [tc_mul_at hx.smooth hY.deriv, Finset.sum_range_succ', Nat.sub_zero, tc_deriv, add_comm]
        congr 1
        rw [← Finset.sum_range_reflect]
        apply Finset.sum_congr rfl
        intro j hj
        have hj' := Finset.mem_range.mp hj
        have e1 : d - 1 - j + 1 = d - j := by omega
        have e2 : d - (d - j) = j := by omega
        rw [e1, e2, tc_deriv, Nat.add_comm j 1]
      have hR : tc (fun t => r * (Y t * deriv X t)) d
          = r * ∑ i ∈ Finset.range (d + 1), tc Y (d - i) * ((1 + i : ℕ) : ℝ) * tc X (1 + i) := by
        rw [tc_const_mul]
        congr 1
        have : (fun t => Y t * deriv X t) = Y * deriv X := rfl
        rw [this, tc_mul_at hY hx.smooth.deriv, ← Finset.sum_range_reflect]
        apply Finset.sum_congr rfl
        intro i hi
        have hi' := Finset.mem_range.mp hi
        have e1 : d + 1 - 1 - i = d - i := by omega
        have e2 : d - (d - i) = i := by omega
        rw [e1, e2, tc_deriv, Nat.add_comm i 1]
        ring
      have hE := tc_congr hode d
      rw [hL, hR] at hE
      -- replace model coefficients by Taylor coefficients below order d+1
      have e1 : ∑ i ∈ Finset.range (d + 1), co (powRealS r (Y 0) x) (d - i) * ((1 + i : ℕ) : ℝ) * co x (1 + i)
          = ∑ i ∈ Finset.range (d + 1), tc Y (d - i) * ((1 + i : ℕ) : ℝ) * tc X (1 + i) := by
        apply Finset.sum_congr rfl
        intro i hi
        have hi' := Finset.mem_range.mp hi
        rw [ih (d - i) (by omega) (by rw [powRealS_length]; omega), hx.coeff (1 + i) (by omega)]
      have e2 : ∑ j ∈ Finset.range d, co x (d - j) * ((1 + j : ℕ) : ℝ) * co (powRealS r (Y 0) x) (1 + j)
          = ∑ j ∈ Finset.range d, tc X (d - j) * (((1 + j : ℕ) : ℝ) * tc Y (1 + j)) := by
        apply Finset.sum_congr rfl
        intro j hj
        have hj' := Finset.mem_range.mp hj
        rw [ih (1 + j) (by omega) (by rw [powRealS_length]; omega), hx.coeff (d - j) (by omega)]
        ring
      rw [hrec, e1, e2, hx.coeff 0 (by omega)]
      linarith

/-- `x ** r` for a real exponent, `x₀ > 0` (`y₀ = x₀ ** r`) -/
theorem rpow_jet {x : List ℝ} {X : ℝ → ℝ} (hx : JetOf x X) (r : ℝ) (h0 : 0 < X 0) :
    JetOf (powRealS r ((X 0) ^ r) x) (fun t => (X t) ^ r) := by
  have hY : Smooth0 (fun t => (X t) ^ r) := ContDiffAt.rpow_const_of_ne hx.smooth h0.ne'
  have hpos : ∀ᶠ t in 𝓝 (0:ℝ), 0 < X t := hx.smooth.continuousAt.eventually (lt_mem_nhds h0)
  have hode : X * deriv (fun t => (X t) ^ r) =ᶠ[𝓝 0] fun t => r * ((X t) ^ r * deriv X t) := by
    filter_upwards [eventually_differentiableAt_comp hx.smooth (contDiffAt_id (x := X 0)), hpos] with t ht hp
    have := ht.2.hasDerivAt.rpow_const (p := r) (Or.inl hp.ne')
    simp only [Pi.mul_apply]
    rw [this.deriv]
    have e : (X t) ^ r = X t * (X t) ^ (r - 1) := by
      rw [Real.rpow_sub_one hp.ne']; field_simp
    rw [e]; ring
  exact hx.powReal_generic r hY h0.ne' hode

theorem contDiffAt_zpow' (n : ℤ) {a : ℝ} (ha : a ≠ 0) : ContDiffAt ℝ ∞ (fun y : ℝ => y ^ n) a := by
  cases n with
  | ofNat m =>
    simp only [Int.ofNat_eq_natCast, zpow_natCast]
    exact (contDiffAt_id (x := a)).pow m
  | negSucc m =>
    simp only [zpow_negSucc]
    exact ((contDiffAt_id (x := a)).pow (m + 1)).inv (pow_ne_zero _ ha)

/-- `x ** n` for an integer exponent (the code's general branch is used for `n < 0`), `x₀ ≠ 0` -/
theorem zpow_jet {x : List ℝ} {X : ℝ → ℝ} (hx : JetOf x X) (n : ℤ) (h0 : X 0 ≠ 0) :
    JetOf (powRealS (n : ℝ) ((X 0) ^ n) x) (fun t => (X t) ^ n) := by
  have hY : Smooth0 (fun t => (X t) ^ n) := by
    have : ContDiffAt ℝ ∞ (fun y : ℝ => y ^ n) (X 0) := contDiffAt_zpow' n h0
    exact this.comp 0 hx.smooth
  have hne : ∀ᶠ t in 𝓝 (0:ℝ), X t ≠ 0 := hx.smooth.continuousAt.eventually_ne h0
  have hode : X * deriv (fun t => (X t) ^ n) =ᶠ[𝓝 0] fun t => (n : ℝ) * ((X t) ^ n * deriv X t) := by
    filter_upwards [eventually_differentiableAt_comp hx.smooth (contDiffAt_id (x := X 0)), hne] with t ht hp
    have := (hasDerivAt_zpow n (X t) (Or.inl hp)).comp t ht.2.hasDerivAt
    simp only [Pi.mul_apply]
    rw [show deriv (fun t => (X t) ^ n) t = (n : ℝ) * (X t) ^ (n - 1) * deriv X t from this.deriv]
    have e : (X t) ^ n = X t * (X t) ^ (n - 1) := by
      rw [zpow_sub_one₀ hp]; field_simp
    rw [e]; ring
  exact hx.powReal_generic (n : ℝ) hY h0 hode

/-! ### natural exponents: `x**0 = 1`, `x**1 = x`, `x**2 = _square`, `x**(r+3)` by repeated `_mul` -/
theorem jetOf_const (c : ℝ) (n : ℕ) : JetOf (constS c n) (fun _ => c) :=
  ⟨contDiffAt_const, fun k hk => by
    have hk' : k < n := by simpa [constS] using hk
    unfold constS
    rw [co_map_range _ _ _ hk', tc_const]⟩

theorem foldl_mul_jet {x : List ℝ} {X : ℝ → ℝ} (hx : JetOf x X) (m : ℕ) :
    JetOf ((List.range m).foldl (fun y _ => mulS x y) x) (fun t => X t ^ (m + 1))
    ∧ ((List.range m).foldl (fun y _ => mulS x y) x).length = x.length := by
  induction m with
  | zero => simp only [List.range_zero, List.foldl_nil, zero_add, pow_one]; exact ⟨hx, trivial⟩
  | succ m ih =>
    rw [List.range_succ, List.foldl_append]
    simp only [List.foldl_cons, List.foldl_nil]
    refine ⟨?_, by rw [mulS_length]⟩
    have := hx.mul ih.1 ih.2
    have e : (fun t => X t ^ (m + 1 + 1)) = X * fun t => X t ^ (m + 1) := by
      funext t; simp only [Pi.mul_apply]; ring
    rw [e]; exact this

theorem pownat_jet {x : List ℝ} {X : ℝ → ℝ} (hx : JetOf x X) (r : ℕ) :
    JetOf (powNatS r x) (fun t => X t ^ r) := by
  match r with
  | 0 => simp only [powNatS, pow_zero]; exact jetOf_const 1 _
  | 1 => simp only [powNatS, pow_one]; exact hx
  | 2 =>
    simp only [powNatS]
    have e : (fun t => X t ^ 2) = X * X := by funext t; simp only [Pi.mul_apply]; ring
    rw [e]; exact hx.square
  | r + 3 =>
    simp only [powNatS]
    exact (foldl_mul_jet hx (r + 2)).1

/-! ### large integer exponents: square and multiply -/
theorem powBinLoop_jet (fuel : ℕ) : ∀ (e : ℕ) (base acc : List ℝ) (B A : ℝ → ℝ), e ≤ fuel →
    JetOf base B → JetOf acc A → acc.length = base.length →
    JetOf (powBinLoop fuel e base acc) (fun t => A t * B t ^ e) ∧ (powBinLoop fuel e base acc).length = base.length := by
  induction fuel with
  | zero =>
    intro e base acc B A he hb ha hl
    have : e = 0 := by omega
    subst this
    simp only [powBinLoop, pow_zero, mul_one]
    exact ⟨ha, hl⟩
  | succ fuel ih =>
    intro e base acc B A he hb ha hl
    simp only [powBinLoop]
    by_cases h0 : e = 0
    · subst h0
      simp only [if_true, pow_zero, mul_one]
      exact ⟨ha, hl⟩
    · rw [if_neg h0]
      -- the accumulator after the optional multiplication
      have hacc : JetOf (if e % 2 = 1 then mulS base acc else acc) (fun t => A t * B t ^ (e % 2))
          ∧ (if e % 2 = 1 then mulS base acc else acc).length = base.length := by
        by_cases h1 : e % 2 = 1
        · rw [if_pos h1, h1]
          refine ⟨?_, by rw [mulS_length]⟩
          have := hb.mul ha hl
          have e' : (fun t => A t * B t ^ 1) = B * A := by funext t; simp only [Pi.mul_apply, pow_one]; ring
          rw [e']; exact this
        · rw [if_neg h1]
          have h2 : e % 2 = 0 := by omega
          rw [h2]
          simp only [pow_zero, mul_one]
          exact ⟨ha, hl⟩
      by_cases h2 : e / 2 = 0
      · simp only [h2, if_true]
        have he1 : e % 2 = e := by omega
        have hfun : (fun t => A t * B t ^ (e % 2)) = fun t => A t * B t ^ e := by rw [he1]
        rw [hfun] at hacc
        exact hacc
      · simp only [h2, if_false]
        have hbb : JetOf (mulS base base) (fun t => B t ^ 2) := by
          have := hb.mul hb rfl
          have e' : (fun t => B t ^ 2) = B * B := by funext t; simp only [Pi.mul_apply]; ring
          rw [e']; exact this
        have := ih (e / 2) (mulS base base) _ _ _ (by omega) hbb hacc.1 (by rw [hacc.2, mulS_length])
        refine ⟨?_, by rw [this.2, mulS_length]⟩
        have e' : (fun t => A t * B t ^ e) = fun t => (A t * B t ^ (e % 2)) * (B t ^ 2) ^ (e / 2) := by
          funext t
          rw [← pow_mul, mul_assoc, ← pow_add]
          congr 2
          omega
        rw [e']; exact this.1

/-- `x ** r` for a large integer `r` by square and multiply is the jet of `X ^ r` (the same curve as the repeated product) -/
theorem powbin_jet {x : List ℝ} {X : ℝ → ℝ} (hx : JetOf x X) (r : ℕ) :
    JetOf (powBinS r x) (fun t => X t ^ r) := by
  have h := (powBinLoop_jet (r + 1) r x (constS 1 x.length) X (fun _ => 1) (by omega) hx (jetOf_const 1 _) (by simp [constS])).1
  simpa [powBinS] using h

/-! ### an array of non-negative integer exponents: masked repeated products (one entry of the array) -/
theorem powMask_jet {x : List ℝ} {X : ℝ → ℝ} (hx : JetOf x X) (r m : ℕ) :
    JetOf (powMaskS r m x) (fun t => X t ^ (min r m)) ∧ (powMaskS r m x).length = x.length := by
  induction m with
  | zero =>
    simp only [powMaskS, List.range_zero, List.foldl_nil, Nat.min_zero, pow_zero]
    exact ⟨jetOf_const 1 _, by simp [constS]⟩
  | succ m ih =>
    unfold powMaskS at ih ⊢
    rw [List.range_succ, List.foldl_append]
    simp only [List.foldl_cons, List.foldl_nil]
    by_cases h : m + 1 ≤ r
    · rw [if_pos h]
      refine ⟨?_, by rw [mulS_length]⟩
      have hm : min r m = m := by omega
      have hm1 : min r (m + 1) = m + 1 := by omega
      rw [hm] at ih
      have := hx.mul ih.1 ih.2
      have e : (fun t => X t ^ (min r (m + 1))) = X * fun t => X t ^ m := by
        funext t; simp only [Pi.mul_apply, hm1]; ring
      rw [e]; exact this
    · rw [if_neg h]
      have hm : min r (m + 1) = min r m := by omega
      rw [hm]; exact ih

/-- with the loop bound `m` at least the entry's exponent (it is the maximum over the array) the entry of
`x ** r` is the jet of `X ^ r`: the same curve as for the Python-int exponent, for every base point (zero
included: no division) -/
theorem powMask_jet_of_le {x : List ℝ} {X : ℝ → ℝ} (hx : JetOf x X) (r m : ℕ) (h : r ≤ m) :
    JetOf (powMaskS r m x) (fun t => X t ^ r) := by
  have := (powMask_jet hx r m).1
  rwa [Nat.min_eq_left h] at this

end AV
