import AlgopyVerif.Model.Pullback
import AlgopyVerif.Proofs.PowerSeries
/-!
# The series-level pullback kernels as ring expressions in `R[t]/(t^D)`
-/
open PowerSeries Finset
namespace AV
section
variable {K : Type} [Field K]

theorem constS_length (c : K) (n : Nat) : (constS c n).length = n := by simp [constS]

theorem co_constS (c : K) (n d : Nat) (h : d < n) : co (constS c n) d = if d = 0 then c else 0 := by
  unfold constS; rw [co_map_range _ _ _ h]

/-- `x * 1 = x` -/
theorem mulS_one (x : List K) : mulS x (constS 1 x.length) = x := by
  apply list_ext_co _ _ (by simp [mulS_length])
  intro d hd
  rw [mulS_length] at hd
  rw [mulS_co x _ d hd, sum_range_succ, Nat.sub_self, co_constS 1 _ 0 (by omega)]
  rw [sum_eq_zero]
  · simp
  · intro k hk
    have := mem_range.mp hk
    rw [co_constS 1 _ (d-k) (by omega), if_neg (by omega), mul_zero]

/-- `(1/x) * x = 1` -/
theorem recipS_mulS (x : List K) (hx : co x 0 ≠ 0) : mulS (recipS x) x = constS 1 x.length := by
  apply list_ext_co _ _ (by simp [mulS_length, recipS, build_length, constS_length])
  intro d hd
  simp only [mulS_length, recipS, build_length] at hd
  rw [mulS_co _ _ d (by simpa [recipS, build_length] using hd), recipS_mul x hx d hd, co_constS 1 _ d hd]

/-- `y / x = y * (1/x)`: the quotient kernel is multiplication by the reciprocal series -/
theorem divS_eq_mul_recip (y x : List K) (hx : co x 0 ≠ 0) (hl : y.length = x.length) :
    divS y x = mulS y (recipS x) := by
  symm
  apply divS_unique y x _ hx (by simp [mulS_length])
  intro d hd
  have h1 : mulS (mulS y (recipS x)) x = y := by
    rw [mulS_assoc y (recipS x) x (by simp [recipS, build_length, hl]), recipS_mulS x hx, ← hl, mulS_one]
  have := congrArg (fun l => co l d) h1
  rw [mulS_co _ _ d (by simpa [mulS_length] using hd)] at this
  exact this

/-- `_pb_exp`, `_amul`: `xbar' = xbar + ybar * y` coefficient-wise in `K⟦X⟧` -/
theorem pbExp_spec (ybar y xbar : List K) (hl : ybar.length = xbar.length) (d : Nat) (hd : d < xbar.length) :
    co (pbExp ybar y xbar) d = coeff d (toPS xbar + toPS ybar * toPS y) := by
  unfold pbExp amulS
  rw [addS_co _ _ d hd, mulS_cauchy ybar y d (hl ▸ hd)]
  simp

/-- `_pb_log`: `xbar' = xbar + ybar * (1/x)` -/
theorem pbLog_spec (ybar x xbar : List K) (hx : co x 0 ≠ 0) (hl : ybar.length = x.length) :
    pbLog ybar x xbar = addS xbar (mulS ybar (recipS x)) := by
  unfold pbLog
  rw [divS_eq_mul_recip ybar x hx hl]

/-- `pb_truediv`: `xbar' = xbar + zbar * (1/y)`, `ybar' = ybar - (zbar * (1/y)) * z` -/
theorem pbDiv_spec (zbar y z xbar ybar : List K) (hy : co y 0 ≠ 0) (hl : zbar.length = y.length) :
    pbDiv zbar y z xbar ybar
      = (addS xbar (mulS zbar (recipS y)), subS ybar (mulS (mulS zbar (recipS y)) z)) := by
  unfold pbDiv
  simp only [divS_eq_mul_recip zbar y hy hl]

end
end AV
