import AlgopyVerif.Model.Interp
/-! heavier entries of the Γ-identity table (kernel evaluation, several minutes) -/
open AV.Interp
namespace AV.C15Big
theorem Gamma_identity_4_4 : checkIdentity 4 4 = true := by decide +kernel
theorem Gamma_identity_3_5 : checkIdentity 3 5 = true := by decide +kernel
theorem Gamma_identity_5_3 : checkIdentity 5 3 = true := by decide +kernel
end AV.C15Big
