import AlgopyVerif.Proofs.Linalg
import AlgopyVerif.Proofs.LinalgInv
import AlgopyVerif.Proofs.LinalgModule
import AlgopyVerif.Proofs.Logdet
import AlgopyVerif.Proofs.Pade
import AlgopyVerif.Proofs.FaddeevLeVerrier
import AlgopyVerif.Proofs.FaddeevLeVerrierGeneral
/-!
# C07 — linear-algebra functions propagate matrix Taylor polynomials correctly

The kernels `_dot`, `_inv`, `_solve`, `_solve_non_UTPM_x` are modelled generically over a
(non-commutative) ring `R` of coefficients — `R = Matrix (Fin n) (Fin n) K` in the theorems, a
concrete matrix type in the driver — with the NumPy results on the zeroth coefficient
(`numpy.linalg.inv(A_0)`, `numpy.linalg.solve(A_0, ·)`) as leaf parameters.  For all `D`, all sizes:

* `dot_is_cauchy_product`: `dot(X, Y)_d = Σ_{c≤d} X_c Y_{d-c}`;
* `inv_right_inverse`: `A(t) · inv(A)(t) = I` modulo `t^D` from `A_0 · inv(A_0) = I`;
* `solve_spec`: `A(t) · X(t) = B(t)` modulo `t^D` from `A_0 · A_0⁻¹ = I` (`solve`, and `solve` with a constant
  right-hand side as the special case `B = B_0`).

* `inv_left_inverse`: `inv(A)(t) · A(t) = I` modulo `t^D` as well (through `PowerSeries R`), and
  `solve_unique`: the solution of `A(t) X(t) = B(t)` is unique modulo `t^D`;
* `det_through_lu`: in any commutative ring (instantiate with `ℝ[t]/(t^D)`), `W L U = A` with `L` unit lower and
  `U` upper triangular gives `det A = det W · ∏ Uᵢᵢ` — the formula `UTPM.det` evaluates; the LU identity itself is
  C08's `lu_defining_equation`.

* `logdet_through_lu`: for a real matrix with `P L U = A`, `log|det A| = Σ log|Uᵢᵢ|` (the value of
  `numpy.linalg.slogdet(A)[1]`, determinant of either sign) — the formula `UTPM.logdet` evaluates, pointwise along the
  curve (so the Taylor coefficients agree by the `log` / `abs` kernel theorems and the `JetOf` closure of C01);
  `logdet_through_lu_pos`: `= log(det A)` when the determinant is positive.

* `expm_pade_evaluation`, `expm_pade_tables_match_exp`: the even/odd evaluation of `_expm_pade<q>` gives `U + V = N(x)`,
  `V − U = D(x) = N(−x)` with the code's coefficient tables (tied to the code by evaluating `_expm_pade<q>` on 1×1 arguments), and
  `D(X)·exp(X) ≡ N(X)` modulo `X^(2q+1)` in `ℚ⟦X⟧` for `q ∈ {3,5,7,9,13}`: `expm_pade` returns the `[q/q]` Padé approximant of
  `exp`, of sharp order `2q` (`expm_pade_order_sharp`).

* `det_fallback_every_size` (and `det_fallback_small_sizes` by direct computation): the division-free recursion `UTPM._det_adj`
  (used by `det` / `pb_det` when the zeroth coefficient is singular) returns the determinant and the adjugate for every size
  `N ≥ 1` over every field of characteristic zero (so over the Laurent series `ℝ((t))`, which contain the power series; the
  recursion divides by the integers `2..N` only and therefore stays inside `ℝ⟦t⟧`, where truncation modulo `t^D` is a ring
  homomorphism) — the Faddeev–LeVerrier theorem, derived from `(X·1 − A)·adj(X·1 − A) = χ_A·1` and `χ_A' = tr adj(X·1 − A)`.

Rectangular right-hand sides (`n × k`): `solve_rectangular_spec`, `solve_rectangular_unique` (the same recursion in the module of
`n × k` matrices; equal to the model's `solveM` for `k = n`).

Not proved (partial): the size of the Padé remainder for a matrix of given norm (the thresholds of `expm_higham_2005`) — these are
checked on the implementation against independent formulas (Leibniz determinant and exponential series
in Taylor arithmetic, residuals).
-/
open AV Finset
namespace AV.C07
variable {R : Type} [Ring R]

theorem dot_is_cauchy_product (x y : List R) (d : Nat) (h : d < x.length) :
    coR (dotM x y) d = ∑ c ∈ range (d+1), coR x c * coR y (d-c) := dotM_co x y d h

theorem inv_right_inverse (x : List R) (y0 : R) (h0 : coR x 0 * y0 = 1) (d : Nat) (h : d < x.length) :
    ∑ k ∈ range (d+1), coR x k * coR (invM x y0) (d-k) = if d = 0 then 1 else 0 :=
  invM_right_inverse x y0 h0 d h

theorem solve_spec (a : List R) (a0inv : R) (b : List R) (h0 : coR a 0 * a0inv = 1) (d : Nat) (h : d < b.length) :
    ∑ k ∈ range (d+1), coR a k * coR (solveM a a0inv b) (d-k) = coR b d := solveM_spec a a0inv b h0 d h

theorem inv_left_inverse (x : List R) (y0 : R) (h0 : coR x 0 * y0 = 1) (h0' : y0 * coR x 0 = 1)
    (d : Nat) (h : d < x.length) :
    ∑ k ∈ range (d+1), coR (invM x y0) k * coR x (d-k) = if d = 0 then 1 else 0 :=
  invM_left_inverse x y0 h0 h0' d h

theorem solve_unique (a : List R) (a0inv : R) (h0' : a0inv * coR a 0 = 1) (b z w : List R) (D : ℕ)
    (hz : ∀ d, d < D → ∑ k ∈ range (d+1), coR a k * coR z (d-k) = coR b d)
    (hw : ∀ d, d < D → ∑ k ∈ range (d+1), coR a k * coR w (d-k) = coR b d) (d : ℕ) (hd : d < D) :
    coR z d = coR w d := AV.solve_unique a a0inv h0' b z w D hz hw d hd

theorem det_through_lu {S : Type} [CommRing S] {n : ℕ} (σ : Equiv.Perm (Fin n)) (L U A : Matrix (Fin n) (Fin n) S)
    (h : (σ.permMatrix S) * L * U = A) (hL : L.BlockTriangular OrderDual.toDual) (hL1 : ∀ i, L i i = 1)
    (hU : U.BlockTriangular id) : A.det = (Equiv.Perm.sign σ : ℤ) * ∏ i, U i i :=
  det_of_lu_perm σ L U A h hL hL1 hU

/-- `UTPM.logdet` (repaired code: `sum(log(abs(diag U)))`): `log|det A| = Σ log|Uᵢᵢ|` — the value of
`numpy.linalg.slogdet(A)[1]` — for a determinant of **either sign** -/
theorem logdet_through_lu {n : ℕ} (σ : Equiv.Perm (Fin n)) (L U A : Matrix (Fin n) (Fin n) ℝ)
    (h : (σ.permMatrix ℝ) * L * U = A) (hL : L.BlockTriangular OrderDual.toDual) (hL1 : ∀ i, L i i = 1)
    (hU : U.BlockTriangular id) (hnz : ∀ i, U i i ≠ 0) :
    Real.log |A.det| = ∑ i, Real.log |U i i| := by
  rw [det_of_lu_perm σ L U A h hL hL1 hU, abs_mul, Finset.abs_prod]
  have hs : |(((Equiv.Perm.sign σ : ℤ)) : ℝ)| = 1 := by
    rcases Int.units_eq_one_or (Equiv.Perm.sign σ) with e | e <;> simp [e]
  rw [hs, one_mul, Real.log_prod]
  intro i _
  exact abs_ne_zero.mpr (hnz i)

/-- for a positive determinant this is `log(det A)` itself -/
theorem logdet_through_lu_pos {n : ℕ} (σ : Equiv.Perm (Fin n)) (L U A : Matrix (Fin n) (Fin n) ℝ)
    (h : (σ.permMatrix ℝ) * L * U = A) (hL : L.BlockTriangular OrderDual.toDual) (hL1 : ∀ i, L i i = 1)
    (hU : U.BlockTriangular id) (hnz : ∀ i, U i i ≠ 0) (hpos : 0 < A.det) :
    Real.log A.det = ∑ i, Real.log |U i i| := by
  rw [← logdet_through_lu σ L U A h hL hL1 hU hnz, abs_of_pos hpos]

/-- constant right-hand side (`_solve_non_UTPM_x`) -/
theorem solve_const_rhs_spec (a : List R) (a0inv b0 : R) (h0 : coR a 0 * a0inv = 1) (d : Nat) (h : d < a.length) :
    ∑ k ∈ range (d+1), coR a k * coR (solveConstBM a a0inv b0) (d-k) = if d = 0 then b0 else 0 := by
  unfold solveConstBM
  rw [solveM_spec a a0inv _ h0 d (by simpa using h), coR_map_range _ _ _ h]

/-- non-vacuity over ℤ (a commutative instance of the ring): `x = 1 + 2t`, `y₀ = 1` -/
example : invM [(1:ℤ), 2, 0] 1 = [1, -2, 4] := by decide

/-- **rectangular right-hand sides**: `solve(A, B)` with `A(t)` an `n × n` and `B(t)` an `n × k` matrix polynomial (any `n`, `k`,
any ring of entries) satisfies `Σ_c A_c · X_{d−c} = B_d` for every `d < D`, given `A_0 · solve(A_0, ·) = id`.  `solveRect` is the
recursion of `_solve` with the right-hand side in the module of `n × k` matrices (`Proofs/LinalgModule.lean`; in any left module:
`solveMod_spec`); for `k = n` it is the model's `solveM` (`solve_rectangular_square`), the definition the driver runs. -/
theorem solve_rectangular_spec {K : Type} [Ring K] {n k : ℕ} (A : List (Matrix (Fin n) (Fin n) K)) (A0inv : Matrix (Fin n) (Fin n) K)
    (B : List (Matrix (Fin n) (Fin k) K)) (h0 : coR A 0 * A0inv = 1) (d : Nat) (h : d < B.length) :
    ∑ c ∈ range (d+1), coR A c * coMd (solveRect A A0inv B) (d-c) = coMd B d := solveRect_spec A A0inv B h0 d h

/-- … and the solution is unique coefficient by coefficient -/
theorem solve_rectangular_unique {K : Type} [Ring K] {n k : ℕ} (A : List (Matrix (Fin n) (Fin n) K)) (A0inv : Matrix (Fin n) (Fin n) K)
    (h0' : A0inv * coR A 0 = 1) (B Z W : List (Matrix (Fin n) (Fin k) K)) (D : ℕ)
    (hz : ∀ d, d < D → ∑ c ∈ range (d+1), coR A c * coMd Z (d-c) = coMd B d)
    (hw : ∀ d, d < D → ∑ c ∈ range (d+1), coR A c * coMd W (d-c) = coMd B d) (d : ℕ) (hd : d < D) :
    coMd Z d = coMd W d := solveRect_unique A A0inv h0' B Z W D hz hw d hd

theorem solve_rectangular_square {K : Type} [Ring K] {n : ℕ} (A : List (Matrix (Fin n) (Fin n) K)) (A0inv : Matrix (Fin n) (Fin n) K)
    (B : List (Matrix (Fin n) (Fin n) K)) : solveRect A A0inv B = solveM A A0inv B := solveRect_square A A0inv B

/-- non-vacuity: a 1 × 1 matrix polynomial `A = 1 + 2t` meets the hypothesis with `A0inv = 1` -/
example : coR [(1 : Matrix (Fin 1) (Fin 1) ℤ), 2 • 1] 0 * 1 = 1 := by simp [coR]


/-- `_expm_pade<q>`: `U + V` and `V − U` are the numerator `N(x) = Σ b_k x^k` and the denominator `N(−x)` of the table `b` -/
theorem expm_pade_evaluation (q : Nat) (hq : q = 3 ∨ q = 5 ∨ q = 7 ∨ q = 9 ∨ q = 13) (x : ℚ) :
    padeU q x + padeV q x = padePoly q x ∧ padeV q x - padeU q x = padePoly q (-x) :=
  ⟨padeU_add_padeV q hq x, padeV_sub_padeU q hq x⟩

open PowerSeries in
/-- the tables of `expm_pade` are the `[q/q]` Padé approximants of `exp`: `D(X)·exp(X)` and `N(X)` agree up to order `2q` -/
theorem expm_pade_tables_match_exp (q : Nat) (hq : q = 3 ∨ q = 5 ∨ q = 7 ∨ q = 9 ∨ q = 13) (m : Nat) (hm : m ≤ 2 * q) :
    coeff m (padeDps q * exp ℚ) = coeff m (padeNps q) :=
  pade_series q hq m hm

/-- and not to order `2q + 1` -/
theorem expm_pade_order_sharp :
    padeDefect 3 7 ≠ 0 ∧ padeDefect 5 11 ≠ 0 ∧ padeDefect 7 15 ≠ 0 ∧ padeDefect 9 19 ≠ 0 ∧ padeDefect 13 27 ≠ 0 :=
  pade_defect_sharp


/-- `UTPM._det_adj`: determinant and adjugate by the Faddeev–LeVerrier recursion, sizes 1, 2, 3 -/
theorem det_fallback_small_sizes {K : Type} [Field K] [CharZero K] :
    (∀ A : Matrix (Fin 1) (Fin 1) K, AV.FL.flDet A = A.det ∧ AV.FL.flAdj A = A.adjugate)
    ∧ (∀ A : Matrix (Fin 2) (Fin 2) K, AV.FL.flDet A = A.det ∧ AV.FL.flAdj A = A.adjugate)
    ∧ (∀ A : Matrix (Fin 3) (Fin 3) K, AV.FL.flDet A = A.det ∧ AV.FL.flAdj A = A.adjugate) :=
  ⟨AV.FL.fl_one, AV.FL.fl_two, fun A => ⟨AV.FL.fl_three_det A, AV.FL.fl_three_adj A⟩⟩


/-- `UTPM._det_adj` for every size `N ≥ 1`: the Faddeev–LeVerrier recursion returns the determinant and the adjugate -/
theorem det_fallback_every_size {K : Type} [Field K] [CharZero K] {n : Type} [Fintype n] [DecidableEq n] [Nonempty n]
    (A : Matrix n n K) : AV.FL.flDet A = A.det ∧ AV.FL.flAdj A = A.adjugate :=
  AV.FLgen.fl_general A

end AV.C07
