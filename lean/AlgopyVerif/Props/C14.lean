import AlgopyVerif.Proofs.Heap
/-!
# C14 — operands are never modified; aliased and in-place forms are safe

Coefficient-level heap programs (`Model/Heap.lean`) for the kernels that are run with
aliased buffers:

* `_mul(x, y, out=…)` (descending `d`, product array formed before it is summed into
  `out[d]`): with `out` aliasing `y`, `x`, or both (`x * x` written into `x`) the result
  is the Cauchy product of the *original* operands — `alias_out_*`;
* `x *= y` (`__imul__`, on the repaired code: the right operand is copied when it may
  share memory): the in-place loop computes `x * y` — `imul_eq_mul`; so `x *= x` equals
  `x *= copy(x)`;
* before the repair, `x *= x` read half-updated coefficients:
  `imul_self_counterexample_before_fix` (witness `[2,3,5]`: `[4,18,39] ≠ [4,12,29]`);
* `/`, `/=`, `_truediv`, `_itruediv`, `_square`, `_sqrt`, `_log`, `_reciprocal` build their
  result in a temporary and copy it to the output afterwards, so their aliased forms are
  the non-aliased function by construction (`divViaTemp`).

That no *public* operation modifies its arguments (the `clone()`-then-kernel pattern) and
that recording / the reverse sweep leave seeds and inputs untouched is checked on the
implementation by byte comparison in the C14 correspondence run (partial: no theorem).
-/
open AV
namespace AV.C14
variable {K : Type} [Field K]

/-- `_mul(x, y, out=y)` (used by `_pow_real` for `r ≥ 3` and by pullback kernels) -/
theorem alias_out_y (x y : List K) (hl : x.length = y.length) : mulOutAliasY x y = mulS x y :=
  mulOutAliasY_eq x y hl

/-- `_mul(x, y, out=x)` -/
theorem alias_out_x (x y : List K) : mulOutAliasX x y = mulS x y := mulOutAliasX_eq x y

/-- `x ∘ x` with operands and output all the same buffer = `x * copy(x)` -/
theorem alias_out_xy (x : List K) : mulOutAliasXY x = mulS x x := mulOutAliasXY_eq x

/-- the in-place product equals the binary product -/
theorem imul_eq_mul (z y : List K) : imulS z y = mulS z y := imulS_eq z y

/-- hence `x *= x` (right operand snapshotted) equals `x * x` -/
theorem imul_self (x : List K) : imulS x x = mulS x x := imulS_eq x x

/-- what the unrepaired `x *= x` loop computed: a concrete wrong answer -/
theorem imul_self_counterexample_before_fix :
    imulSelfUnrepaired [(2:ℚ), 3, 5] = [4, 18, 39] ∧ mulS [(2:ℚ), 3, 5] [2, 3, 5] = [4, 12, 29] := by
  constructor <;> decide +kernel

/-- aliased division = non-aliased division (result built in a temporary) -/
theorem alias_div (x y : List K) : divViaTemp x y = divS x y := rfl

example : mulOutAliasXY [(2:ℚ), 3, 5] = [4, 12, 29] := by decide +kernel
example : imulS [(2:ℚ), 3, 5] [2, 3, 5] = [4, 12, 29] := by decide +kernel

end AV.C14
