import AlgopyVerif.Proofs.Analytic
import AlgopyVerif.Proofs.Analytic2
import AlgopyVerif.Proofs.Closure
import AlgopyVerif.Proofs.Ode
import AlgopyVerif.Proofs.SpecialFns
import AlgopyVerif.Proofs.Lift
/-!
# C01 — elementary functions return the Taylor coefficients of `f(x(t))`

`x : List ℝ` is the input series (length `D`), `curve x` the polynomial curve
`x̂(t) = Σ x_k t^k`, `tc g d = g⁽ᵈ⁾(0)/d!`.  The literal property, for every `D`, every
input and every `d < D` (*analytic layer*):

    co (expS (exp x₀) x) d = tc (fun t => exp (x̂ t)) d          … and so on.

The *formal layer* gives, over any field of characteristic 0 (real and complex
coefficients), the defining convolution identity of each recurrence.

Status.  Analytic layer proved: exp, expm1, log, log1p, sqrt, reciprocal, real / negative-integer /
natural powers, sin, cos, tan, sinh, cosh, tanh, arctan, arcsin, arccos, logit, expit, erf and erfi
(for any antiderivative of `c·exp(∓y²)` — Mathlib has no `erf`), absolute, sign, minimum, maximum
away from their kinks (each with the base values the code uses: `1/cos²x₀`, `1-tanh²x₀`,
`1+x₀²`, `cos(arcsin x₀)`, `-sin(arccos x₀)`, …).  The kernels are closed under composition
(`JetOf`, `jet_*` below): a kernel applied to the jet of *any* smooth germ returns the jet of the
composite, by the jet lemma `tc_comp_congr`.  `_eval_slow_generic` (gammaln, psi, polygamma, hyperu)
is proved for *every* smooth `f` whose derivative leaves are `f⁽ᵈ⁾(x₀)` (Faà di Bruno in power form,
`faa_power`); the generic ODE solver `_taylor_polynomials_of_ode_solutions` for every system
`b(u)v' - a(u)v = c(u)` and `_dawsn` for every `F` with `F' = 1 - 2yF`; `botched_clip` away from the
kinks.  Formal layer proved: exp, log, sqrt, sin/cos, reciprocal (and mul/div in C02).  Not proved:
analytic statements for complex coefficients (the formal layer and the correspondence cover them).
-/
open AV
open scoped ContDiff

namespace AV.C01

/-! ## analytic layer (the literal property) -/

/-- `UTPM.exp`: coefficient `d` of the model equals `(1/d!) dᵈ/dtᵈ exp(x(t))|₀` -/
theorem exp_taylor (x : List ℝ) (d : ℕ) (hd : d < x.length) :
    co (expS (Real.exp (co x 0)) x) d = tc (fun t => Real.exp (curve x t)) d :=
  AV.exp_taylor x d hd

theorem sin_taylor (x : List ℝ) (d : ℕ) (hd : d < x.length) :
    co (sincosS (Real.sin (co x 0)) (Real.cos (co x 0)) x).1 d = tc (fun t => Real.sin (curve x t)) d :=
  (AV.sincos_taylor x d hd).1

theorem cos_taylor (x : List ℝ) (d : ℕ) (hd : d < x.length) :
    co (sincosS (Real.sin (co x 0)) (Real.cos (co x 0)) x).2 d = tc (fun t => Real.cos (curve x t)) d :=
  (AV.sincos_taylor x d hd).2

/-- domain of smoothness of `log`: `x₀ ≠ 0` (NumPy's real `log` needs `x₀ > 0`) -/
theorem log_taylor (x : List ℝ) (hx : co x 0 ≠ 0) (d : ℕ) (hd : d < x.length) :
    co (logS (Real.log (co x 0)) x) d = tc (fun t => Real.log (curve x t)) d :=
  AV.log_taylor x hx d hd

theorem sqrt_taylor (x : List ℝ) (hx : 0 < co x 0) (d : ℕ) (hd : d < x.length) :
    co (sqrtS (Real.sqrt (co x 0)) x) d = tc (fun t => Real.sqrt (curve x t)) d :=
  AV.sqrt_taylor x hx d hd

theorem reciprocal_taylor (x : List ℝ) (hx : co x 0 ≠ 0) (d : ℕ) (hd : d < x.length) :
    co (recipS x) d = tc (fun t => (curve x t)⁻¹) d :=
  AV.recip_taylor x hx d hd

theorem sinh_taylor (x : List ℝ) (d : ℕ) (hd : d < x.length) :
    co (sinhcoshS (Real.sinh (co x 0)) (Real.cosh (co x 0)) x).1 d = tc (fun t => Real.sinh (curve x t)) d :=
  (AV.sinhcosh_taylor x d hd).1

theorem cosh_taylor (x : List ℝ) (d : ℕ) (hd : d < x.length) :
    co (sinhcoshS (Real.sinh (co x 0)) (Real.cosh (co x 0)) x).2 d = tc (fun t => Real.cosh (curve x t)) d :=
  (AV.sinhcosh_taylor x d hd).2

/-- domain of smoothness of `tan`: `cos x₀ ≠ 0`; the second output is `sec² = 1 + tan²` -/
theorem tan_taylor (x : List ℝ) (hx : Real.cos (co x 0) ≠ 0) (d : ℕ) (hd : d < x.length) :
    co (tansec2S (Real.tan (co x 0)) (1 / (Real.cos (co x 0) * Real.cos (co x 0))) x).1 d
      = tc (fun t => Real.tan (curve x t)) d :=
  (AV.tansec2_taylor x hx d hd).1

theorem tanh_taylor (x : List ℝ) (d : ℕ) (hd : d < x.length) :
    co (tanhsech2S (Real.tanh (co x 0)) (1 - Real.tanh (co x 0) * Real.tanh (co x 0)) x).1 d
      = tc (fun t => Real.tanh (curve x t)) d :=
  (AV.tanhsech2_taylor x d hd).1

theorem arctan_taylor (x : List ℝ) (d : ℕ) (hd : d < x.length) :
    co (arctanS (Real.arctan (co x 0)) x).1 d = tc (fun t => Real.arctan (curve x t)) d :=
  (AV.arctan_taylor x d hd).1

/-- domain of smoothness of `arcsin`/`arccos`: `-1 < x₀ < 1` -/
theorem arcsin_taylor (x : List ℝ) (h1 : -1 < co x 0) (h2 : co x 0 < 1) (d : ℕ) (hd : d < x.length) :
    co (arcsinS (Real.arcsin (co x 0)) (Real.cos (Real.arcsin (co x 0))) x).1 d
      = tc (fun t => Real.arcsin (curve x t)) d :=
  (AV.arcsin_taylor x h1 h2 d hd).1

theorem arccos_taylor (x : List ℝ) (h1 : -1 < co x 0) (h2 : co x 0 < 1) (d : ℕ) (hd : d < x.length) :
    co (arcsinS (Real.arccos (co x 0)) (-Real.sin (Real.arccos (co x 0))) x).1 d
      = tc (fun t => Real.arccos (curve x t)) d :=
  (AV.arccos_taylor x h1 h2 d hd).1

/-! ### the black/white family and powers (via closure under composition) -/

theorem expm1_taylor (x : List ℝ) (d : ℕ) (hd : d < x.length) :
    co (expm1S (Real.exp (co x 0)) (Real.exp (co x 0) - 1) x) d = tc (fun t => Real.exp (curve x t) - 1) d := by
  have := (expm1_jet (jetOf_curve x)).coeff d (by simpa [expm1S, blackWhiteS] using hd)
  simpa only [curve_zero] using this

/-- domain of smoothness of `log1p`: `1 + x₀ ≠ 0` (NumPy's real `log1p` needs `x₀ > -1`) -/
theorem log1p_taylor (x : List ℝ) (hx : co x 0 + 1 ≠ 0) (d : ℕ) (hd : d < x.length) :
    co (log1pS (Real.log (co x 0 + 1)) x) d = tc (fun t => Real.log (curve x t + 1)) d := by
  have := (log1p_jet (jetOf_curve x) (by simpa only [curve_zero] using hx)).coeff d
    (by simpa [log1pS, blackWhiteS] using hd)
  simpa only [curve_zero] using this

/-- `logit x = log x - log (1 - x)`, `x₀ ∉ {0, 1}` -/
theorem logit_taylor (x : List ℝ) (h0 : co x 0 ≠ 0) (h1 : 1 - co x 0 ≠ 0) (d : ℕ) (hd : d < x.length) :
    co (logitS (Real.log (co x 0) - Real.log (1 - co x 0)) x) d
      = tc (fun t => Real.log (curve x t) - Real.log (1 - curve x t)) d := by
  have := (logit_jet (jetOf_curve x) (by simpa only [curve_zero] using h0)
    (by simpa only [curve_zero] using h1)).coeff d (by simpa [logitS, blackWhiteS] using hd)
  simpa only [curve_zero] using this

theorem expit_taylor (x : List ℝ) (d : ℕ) (hd : d < x.length) :
    co (expitS (Real.exp (co x 0)) ((1 + Real.exp (-(co x 0)))⁻¹) x) d
      = tc (fun t => (1 + Real.exp (-(curve x t)))⁻¹) d := by
  have := (expit_jet (jetOf_curve x)).coeff d (by simpa [expitS, blackWhiteS] using hd)
  simpa only [curve_zero] using this

/-- `erf`: for every smooth `E` with `E'(y) = c · exp(-y²)` (so `E = erf` up to the leaf `E(x₀)`, `c = 2/√π`) -/
theorem erf_taylor (x : List ℝ) (c : ℝ) (E : ℝ → ℝ) (hE : ∀ y, HasDerivAt E (c * Real.exp (-(y * y))) y)
    (hEs : ContDiffAt ℝ ∞ E (co x 0)) (d : ℕ) (hd : d < x.length) :
    co (erfS c (Real.exp (-(co x 0 * co x 0))) (E (co x 0)) x) d = tc (fun t => E (curve x t)) d := by
  have := (erf_jet (jetOf_curve x) c E hE (by simpa only [curve_zero] using hEs)).coeff d
    (by simpa [erfS, blackWhiteS] using hd)
  simpa only [curve_zero] using this

theorem erfi_taylor (x : List ℝ) (c : ℝ) (E : ℝ → ℝ) (hE : ∀ y, HasDerivAt E (c * Real.exp (y * y)) y)
    (hEs : ContDiffAt ℝ ∞ E (co x 0)) (d : ℕ) (hd : d < x.length) :
    co (erfiS c (Real.exp (co x 0 * co x 0)) (E (co x 0)) x) d = tc (fun t => E (curve x t)) d := by
  have := (erfi_jet (jetOf_curve x) c E hE (by simpa only [curve_zero] using hEs)).coeff d
    (by simpa [erfiS, blackWhiteS] using hd)
  simpa only [curve_zero] using this

/-- `x ** r`, real exponent, `x₀ > 0` -/
theorem rpow_taylor (x : List ℝ) (r : ℝ) (hx : 0 < co x 0) (d : ℕ) (hd : d < x.length) :
    co (powRealS r ((co x 0) ^ r) x) d = tc (fun t => (curve x t) ^ r) d := by
  have := (rpow_jet (jetOf_curve x) r (by simpa only [curve_zero] using hx)).coeff d
    (by simpa [powRealS_length] using hd)
  simpa only [curve_zero] using this

/-- `x ** n`, integer exponent through the general branch (the code uses it for `n < 0`), `x₀ ≠ 0` -/
theorem zpow_taylor (x : List ℝ) (n : ℤ) (hx : co x 0 ≠ 0) (d : ℕ) (hd : d < x.length) :
    co (powRealS (n : ℝ) ((co x 0) ^ n) x) d = tc (fun t => (curve x t) ^ n) d := by
  have := (zpow_jet (jetOf_curve x) n (by simpa only [curve_zero] using hx)).coeff d
    (by simpa [powRealS_length] using hd)
  simpa only [curve_zero] using this

/-- `x ** r` for a Python int `r ≥ 0` (all base points, including `x₀ = 0`) -/
theorem pownat_taylor (x : List ℝ) (r : ℕ) (d : ℕ) (hd : d < (powNatS r x).length) :
    co (powNatS r x) d = tc (fun t => (curve x t) ^ r) d :=
  (pownat_jet (jetOf_curve x) r).coeff d hd

/-! ### kink functions away from the kink -/
theorem absolute_taylor (x : List ℝ) (hx : co x 0 ≠ 0) (d : ℕ) (hd : d < x.length) :
    co (absoluteS (SignType.sign (co x 0) : ℝ) |co x 0| x) d = tc (fun t => |curve x t|) d := by
  have := (abs_jet (jetOf_curve x) (by simpa only [curve_zero] using hx)).coeff d (by simpa [absoluteS] using hd)
  simpa only [curve_zero] using this

theorem sign_taylor (x : List ℝ) (hx : co x 0 ≠ 0) (d : ℕ) (hd : d < x.length) :
    co (signS (SignType.sign (co x 0) : ℝ) x) d = tc (fun t => (SignType.sign (curve x t) : ℝ)) d := by
  have := (sign_jet (jetOf_curve x) (by simpa only [curve_zero] using hx)).coeff d (by simpa [signS, constS] using hd)
  simpa only [curve_zero] using this

theorem minimum_maximum_taylor (x y : List ℝ) (hl : y.length = x.length) (h : co x 0 < co y 0) (d : ℕ) (hd : d < x.length) :
    co (selectS 1 x y) d = tc (fun t => min (curve x t) (curve y t)) d
    ∧ co (selectS 0 x y) d = tc (fun t => max (curve x t) (curve y t)) d := by
  have := min_jet (jetOf_curve x) (jetOf_curve y) hl (by simpa only [curve_zero] using h)
  exact ⟨this.1.coeff d (by simpa [selectS] using hd), this.2.coeff d (by simpa [selectS] using hd)⟩

/-! ### the Faà-di-Bruno family, the ODE family, clipping -/

/-- `_eval_slow_generic(f, x)` (gammaln, psi, polygamma, hyperu): for every `f` smooth at `x₀` and
derivative leaves `derivs[d] = f⁽ᵈ⁾(x₀)` (what C16 establishes for `algopy.nthderiv`) -/
theorem slow_generic_taylor (x : List ℝ) (f : ℝ → ℝ) (hf : ContDiffAt ℝ ∞ f (co x 0)) (derivs : List ℝ)
    (hd : ∀ d, d < x.length → co derivs d = iteratedDeriv d f (co x 0)) (d : ℕ) (hdl : d < (slowGenericS derivs x).length) :
    co (slowGenericS derivs x) d = tc (fun t => f (curve x t)) d :=
  (slowGeneric_jet (jetOf_curve x) f (by simpa only [curve_zero] using hf) derivs
    (by simpa only [curve_zero] using hd)).coeff d hdl

/-- Faà di Bruno (power form): `tc (f ∘ X) i = Σ_{d ≤ n} f⁽ᵈ⁾(X 0)/d! · tc ((X - X 0)^d) i` for `n ≥ i` -/
theorem faa_di_bruno {X : ℝ → ℝ} (hX : Smooth0 X) (i n : ℕ) (h : i ≤ n) (f : ℝ → ℝ) (hf : ContDiffAt ℝ ∞ f (X 0)) :
    tc (fun t => f (X t)) i = ∑ d ∈ Finset.range (n + 1), tcAt f (X 0) d * tc (fun t => shift0 X t ^ d) i :=
  faa_power hX i n h f hf

/-- `_dawsn`: for every smooth `F` with `F'(y) = 1 - 2 y F(y)` (Dawson's integral; leaf `F(x₀)` from SciPy) -/
theorem dawsn_taylor (x : List ℝ) (F : ℝ → ℝ) (hF : ∀ y, HasDerivAt F (1 - 2 * y * F y) y)
    (hFs : ContDiffAt ℝ ∞ F (co x 0)) (d : ℕ) (hd : d < (dawsnS (F (co x 0)) x).length) :
    co (dawsnS (F (co x 0)) x) d = tc (fun t => F (curve x t)) d := by
  have := (dawsn_jet (jetOf_curve x) F hF (by simpa only [curve_zero] using hFs)).coeff d
    (by simpa only [curve_zero] using hd)
  simpa only [curve_zero] using this

/-- `erf`, `erfi`, Dawson's integral as concrete functions (`erfC c y = c ∫₀^y e^{-s²}`, `erfiC c y = c ∫₀^y e^{s²}`,
`dawsonF y = e^{-y²} ∫₀^y e^{s²}`; `c = 2/√π`) -/
theorem erf_dawsn_concrete (x : List ℝ) (c : ℝ) (d : ℕ) (hd : d < x.length) :
    co (erfS c (Real.exp (-(co x 0 * co x 0))) (erfC c (co x 0)) x) d = tc (fun t => erfC c (curve x t)) d
    ∧ co (erfiS c (Real.exp (co x 0 * co x 0)) (erfiC c (co x 0)) x) d = tc (fun t => erfiC c (curve x t)) d
    ∧ co (dawsnS (dawsonF (co x 0)) x) d = tc (fun t => dawsonF (curve x t)) d := by
  have h1 := (erfC_jet (jetOf_curve x) c).coeff d (by simpa [erfS, blackWhiteS] using hd)
  have h2 := (erfiC_jet (jetOf_curve x) c).coeff d (by simpa [erfiS, blackWhiteS] using hd)
  have h3 := (dawsonF_jet (jetOf_curve x)).coeff d (by simpa [dawsnS, odeS_length, curve_zero] using hd)
  simp only [curve_zero] at h1 h2 h3
  exact ⟨h1, h2, h3⟩

/-- `botched_clip(lo, hi, x)` away from the kinks: inside the interval the identity, outside a constant -/
theorem clip_taylor_inside (x : List ℝ) (lo hi : ℝ) (h1 : lo < co x 0) (h2 : co x 0 < hi) (d : ℕ) (hd : d < x.length) :
    co (clipS (co x 0) 1 x) d = tc (fun t => max lo (min (curve x t) hi)) d := by
  have := (clip_jet_inside (jetOf_curve x) lo hi (by simpa only [curve_zero] using h1)
    (by simpa only [curve_zero] using h2)).coeff d (by simpa [clipS] using hd)
  simpa only [curve_zero] using this

theorem clip_taylor_outside (x : List ℝ) (lo hi : ℝ) (hlh : lo ≤ hi) (d : ℕ) (hd : d < x.length) :
    (co x 0 < lo → co (clipS lo 0 x) d = tc (fun t => max lo (min (curve x t) hi)) d)
    ∧ (hi < co x 0 → co (clipS hi 0 x) d = tc (fun t => max lo (min (curve x t) hi)) d) :=
  ⟨fun h => (clip_jet_below (jetOf_curve x) lo hi hlh (by simpa only [curve_zero] using h)).coeff d (by simpa [clipS] using hd),
   fun h => (clip_jet_above (jetOf_curve x) lo hi hlh (by simpa only [curve_zero] using h)).coeff d (by simpa [clipS] using hd)⟩

/-! ### closure under composition: kernels applied to the jet of any smooth germ -/

/-- the jet lemma: the first `n+1` Taylor coefficients of `f ∘ X` depend only on those of `X` -/
theorem jet_lemma {X G : ℝ → ℝ} (hX : Smooth0 X) (hG : Smooth0 G) (n : ℕ) (h : ∀ k, k ≤ n → tc X k = tc G k)
    (d : ℕ) (hd : d ≤ n) (f : ℝ → ℝ) (hf : ContDiffAt ℝ ∞ f (X 0)) :
    tc (fun t => f (X t)) d = tc (fun t => f (G t)) d :=
  tc_comp_congr hX hG n h d hd f hf

/-- example of a composed program: `exp(sin(x) * x)`, every coefficient, every input -/
theorem jet_exp_sin_mul (x : List ℝ) :
    JetOf (expS (Real.exp (Real.sin (co x 0) * co x 0)) (mulS (sincosS (Real.sin (co x 0)) (Real.cos (co x 0)) x).1 x))
      (fun t => Real.exp (Real.sin (curve x t) * curve x t)) := by
  have h1 := (jetOf_curve x).sin
  have h2 := h1.mul (jetOf_curve x) (by simp [sincosS, build_length])
  have h3 := h2.exp
  simpa only [curve_zero, Pi.mul_apply] using h3

/-! ## formal layer: defining identities over any field of characteristic 0 -/
section
variable {K : Type} [Field K] [CharZero K]

/-- `y = exp x`: `y₀` is the leaf and `(d+1) y_{d+1} = Σ_{i≤d} (i+1) x_{i+1} y_{d-i}` (i.e. `y' = x' y`) -/
theorem exp_formal (y0 : K) (x : List K) (d : ℕ) (h : d + 1 < x.length) :
    co (expS y0 x) 0 = y0 ∧
    ((d + 1 : ℕ) : K) * co (expS y0 x) (d+1)
      = ∑ i ∈ Finset.range (d+1), ((1 + i : ℕ) : K) * co x (1+i) * co (expS y0 x) (d - i) :=
  ⟨expS_zero y0 x (by omega), expS_succ y0 x d h⟩

/-- `y = log x`: `x y' = x'` -/
theorem log_formal (y0 : K) (x : List K) (hx : co x 0 ≠ 0) (d : ℕ) (h : d + 1 < x.length) :
    co (logS y0 x) 0 = y0 ∧
    co x 0 * (((d + 1 : ℕ) : K) * co (logS y0 x) (d+1))
      = ((d + 1 : ℕ) : K) * co x (d+1)
        - ∑ j ∈ Finset.range d, co x (d - j) * (((1 + j : ℕ) : K) * co (logS y0 x) (1+j)) :=
  ⟨logS_zero y0 x (by omega), logS_succ y0 x hx d h⟩

/-- `y = sqrt x`: `y · y = x` modulo `t^D` -/
theorem sqrt_formal (y0 : K) (x : List K) (hy : y0 ≠ 0) (hx : y0 * y0 = co x 0) (d : ℕ) (h : d < x.length) :
    ∑ k ∈ Finset.range (d+1), co (sqrtS y0 x) k * co (sqrtS y0 x) (d-k) = co x d :=
  sqrtS_sq y0 x hy hx d h

/-- `s = sin x, c = cos x`: `s' = x' c`, `c' = -x' s` -/
theorem sincos_formal (s0 c0 : K) (x : List K) (d : ℕ) (h : d + 1 < x.length) :
    ((d + 1 : ℕ) : K) * co (sincosS s0 c0 x).1 (d+1)
        = ∑ i ∈ Finset.range (d+1), ((1 + i : ℕ) : K) * co x (1+i) * co (sincosS s0 c0 x).2 (d - i)
    ∧ ((d + 1 : ℕ) : K) * co (sincosS s0 c0 x).2 (d+1)
        = ∑ i ∈ Finset.range (d+1), -(((1 + i : ℕ) : K) * co x (1+i) * co (sincosS s0 c0 x).1 (d - i)) :=
  sincosS_succ s0 c0 x d h

/-- `z = 1/y`: `z · y = 1` modulo `t^D` -/
theorem reciprocal_formal (y : List K) (hy : co y 0 ≠ 0) (d : ℕ) (h : d < y.length) :
    ∑ k ∈ Finset.range (d+1), co (recipS y) k * co y (d-k) = if d = 0 then 1 else 0 :=
  recipS_mul y hy d h
end

/-! ## any number of directions `P`, any coefficient shape -/
section
open NdArray
attribute [local instance] inh0

/-- a UTPM method = the L0 kernel applied to every `(p, idx)` series (model of `clone()` + kernel) -/
theorem utpm_elementwise {K : Type} [Field K] (f : List K → List K → List K) (leaves : List (NdArray K))
    (x : NdArray K) (D P : Nat) (s : List Nat) (hx : x.shape = D :: P :: s) (p : Nat) (idx : List Nat)
    (hp : p < P) (h : ValidIdx s idx) (d : Nat) (hd : d < D) :
    co (seriesAt (mapS1 f leaves x) p idx) d
      = co (f (leaves.map fun l => l.get (p :: idx)) (seriesAt x p idx)) d := by
  rw [seriesAt_mapS1 f leaves x D P s hx p idx hp h, co_map_range _ _ _ hd]

theorem seriesAt_length {K : Type} [Field K] (x : NdArray K) (D P : Nat) (s : List Nat)
    (hx : x.shape = D :: P :: s) (p : Nat) (idx : List Nat) : (seriesAt x p idx).length = D := by
  simp [seriesAt, utD, hx]

/-- `UTPM.exp` for every direction `p`, element `idx` and order `d`, with the leaf array
`numpy.exp(x.data[0])` -/
theorem utpm_exp_taylor (x leaf : NdArray ℝ) (D P : Nat) (s : List Nat) (hx : x.shape = D :: P :: s)
    (p : Nat) (idx : List Nat) (hp : p < P) (h : ValidIdx s idx) (d : Nat) (hd : d < D)
    (hleaf : leaf.get (p :: idx) = Real.exp (co (seriesAt x p idx) 0)) :
    co (seriesAt (mapS1 (fun lv xs => expS (lv.getD 0 0) xs) [leaf] x) p idx) d
      = tc (fun t => Real.exp (curve (seriesAt x p idx) t)) d := by
  rw [utpm_elementwise _ _ x D P s hx p idx hp h d hd]
  simp only [List.map_cons, List.map_nil, List.getD_cons_zero, hleaf]
  exact AV.exp_taylor _ d (by rw [seriesAt_length x D P s hx]; exact hd)
end

/-! ## non-vacuity -/
example : expS (1:ℚ) [0, 1, 0, 0, 0] = [1, 1, 1/2, 1/6, 1/24] := by decide +kernel
example : (0:ℕ) < ([0, 1, 0, 0, 0] : List ℝ).length := by simp

end AV.C01
