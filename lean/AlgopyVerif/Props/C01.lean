import AlgopyVerif.Proofs.Analytic
import AlgopyVerif.Proofs.Lift
/-!
# C01 — elementary functions return the Taylor coefficients of `f(x(t))`

`x : List ℝ` is the input series (length `D`), `curve x` the polynomial curve
`x̂(t) = Σ x_k t^k`, `tc g d = g⁽ᵈ⁾(0)/d!`.  The literal property, for every `D`, every
input and every `d < D` (*analytic layer*):

    co (expS (exp x₀) x) d = tc (fun t => exp (x̂ t)) d          … and so on.

The *formal layer* gives, over any field of characteristic 0 (real and complex
coefficients), the defining convolution identity of each recurrence.

Status.  Analytic layer proved: exp, sin, cos, log, sqrt, reciprocal.  Formal layer
proved: exp, log, sqrt, sin/cos, reciprocal (and mul/div in C02).  For the remaining
functions of the property (tan, arc*, hyperbolic, powers, the black/white family, the
Faà-di-Bruno family, dawsn, kink functions) the model exists (`Model/Series.lean`) and is
tied to the code by the correspondence run; their all-inputs theorems are not proved yet
(`…_partial` below refers to this).
-/
open AV

namespace AV.C01

/-! ## analytic layer (the literal property) -/

/-- `UTPM.exp`: coefficient `d` of the model equals `(1/d!) dᵈ/dtᵈ exp(x(t))|₀` -/
theorem exp_taylor (x : List ℝ) (d : ℕ) (hd : d < x.length) :
    co (expS (Real.exp (co x 0)) x) d = tc (fun t => Real.exp (curve x t)) d :=
  AV.exp_taylor x d hd

theorem sin_taylor (x : List ℝ) (d : ℕ) (hd : d < x.length) :
    co (sincosS (Real.sin (co x 0)) (Real.cos (co x 0)) x).1 d = tc (fun t => Real.sin (curve x t)) d :=
  (AV.sincos_taylor x d hd).1

theorem cos_taylor (x : List ℝ) (d : ℕ) (hd : d < x.length) :
    co (sincosS (Real.sin (co x 0)) (Real.cos (co x 0)) x).2 d = tc (fun t => Real.cos (curve x t)) d :=
  (AV.sincos_taylor x d hd).2

/-- domain of smoothness of `log`: `x₀ ≠ 0` (NumPy's real `log` needs `x₀ > 0`) -/
theorem log_taylor (x : List ℝ) (hx : co x 0 ≠ 0) (d : ℕ) (hd : d < x.length) :
    co (logS (Real.log (co x 0)) x) d = tc (fun t => Real.log (curve x t)) d :=
  AV.log_taylor x hx d hd

theorem sqrt_taylor (x : List ℝ) (hx : 0 < co x 0) (d : ℕ) (hd : d < x.length) :
    co (sqrtS (Real.sqrt (co x 0)) x) d = tc (fun t => Real.sqrt (curve x t)) d :=
  AV.sqrt_taylor x hx d hd

theorem reciprocal_taylor (x : List ℝ) (hx : co x 0 ≠ 0) (d : ℕ) (hd : d < x.length) :
    co (recipS x) d = tc (fun t => (curve x t)⁻¹) d :=
  AV.recip_taylor x hx d hd

/-! ## formal layer: defining identities over any field of characteristic 0 -/
section
variable {K : Type} [Field K] [CharZero K]

/-- `y = exp x`: `y₀` is the leaf and `(d+1) y_{d+1} = Σ_{i≤d} (i+1) x_{i+1} y_{d-i}` (i.e. `y' = x' y`) -/
theorem exp_formal (y0 : K) (x : List K) (d : ℕ) (h : d + 1 < x.length) :
    co (expS y0 x) 0 = y0 ∧
    ((d + 1 : ℕ) : K) * co (expS y0 x) (d+1)
      = ∑ i ∈ Finset.range (d+1), ((1 + i : ℕ) : K) * co x (1+i) * co (expS y0 x) (d - i) :=
  ⟨expS_zero y0 x (by omega), expS_succ y0 x d h⟩

/-- `y = log x`: `x y' = x'` -/
theorem log_formal (y0 : K) (x : List K) (hx : co x 0 ≠ 0) (d : ℕ) (h : d + 1 < x.length) :
    co (logS y0 x) 0 = y0 ∧
    co x 0 * (((d + 1 : ℕ) : K) * co (logS y0 x) (d+1))
      = ((d + 1 : ℕ) : K) * co x (d+1)
        - ∑ j ∈ Finset.range d, co x (d - j) * (((1 + j : ℕ) : K) * co (logS y0 x) (1+j)) :=
  ⟨logS_zero y0 x (by omega), logS_succ y0 x hx d h⟩

/-- `y = sqrt x`: `y · y = x` modulo `t^D` -/
theorem sqrt_formal (y0 : K) (x : List K) (hy : y0 ≠ 0) (hx : y0 * y0 = co x 0) (d : ℕ) (h : d < x.length) :
    ∑ k ∈ Finset.range (d+1), co (sqrtS y0 x) k * co (sqrtS y0 x) (d-k) = co x d :=
  sqrtS_sq y0 x hy hx d h

/-- `s = sin x, c = cos x`: `s' = x' c`, `c' = -x' s` -/
theorem sincos_formal (s0 c0 : K) (x : List K) (d : ℕ) (h : d + 1 < x.length) :
    ((d + 1 : ℕ) : K) * co (sincosS s0 c0 x).1 (d+1)
        = ∑ i ∈ Finset.range (d+1), ((1 + i : ℕ) : K) * co x (1+i) * co (sincosS s0 c0 x).2 (d - i)
    ∧ ((d + 1 : ℕ) : K) * co (sincosS s0 c0 x).2 (d+1)
        = ∑ i ∈ Finset.range (d+1), -(((1 + i : ℕ) : K) * co x (1+i) * co (sincosS s0 c0 x).1 (d - i)) :=
  sincosS_succ s0 c0 x d h

/-- `z = 1/y`: `z · y = 1` modulo `t^D` -/
theorem reciprocal_formal (y : List K) (hy : co y 0 ≠ 0) (d : ℕ) (h : d < y.length) :
    ∑ k ∈ Finset.range (d+1), co (recipS y) k * co y (d-k) = if d = 0 then 1 else 0 :=
  recipS_mul y hy d h
end

/-! ## any number of directions `P`, any coefficient shape -/
section
open NdArray
attribute [local instance] inh0

/-- a UTPM method = the L0 kernel applied to every `(p, idx)` series (model of `clone()` + kernel) -/
theorem utpm_elementwise {K : Type} [Field K] (f : List K → List K → List K) (leaves : List (NdArray K))
    (x : NdArray K) (D P : Nat) (s : List Nat) (hx : x.shape = D :: P :: s) (p : Nat) (idx : List Nat)
    (hp : p < P) (h : ValidIdx s idx) (d : Nat) (hd : d < D) :
    co (seriesAt (mapS1 f leaves x) p idx) d
      = co (f (leaves.map fun l => l.get (p :: idx)) (seriesAt x p idx)) d := by
  rw [seriesAt_mapS1 f leaves x D P s hx p idx hp h, co_map_range _ _ _ hd]

theorem seriesAt_length {K : Type} [Field K] (x : NdArray K) (D P : Nat) (s : List Nat)
    (hx : x.shape = D :: P :: s) (p : Nat) (idx : List Nat) : (seriesAt x p idx).length = D := by
  simp [seriesAt, utD, hx]

/-- `UTPM.exp` for every direction `p`, element `idx` and order `d`, with the leaf array
`numpy.exp(x.data[0])` -/
theorem utpm_exp_taylor (x leaf : NdArray ℝ) (D P : Nat) (s : List Nat) (hx : x.shape = D :: P :: s)
    (p : Nat) (idx : List Nat) (hp : p < P) (h : ValidIdx s idx) (d : Nat) (hd : d < D)
    (hleaf : leaf.get (p :: idx) = Real.exp (co (seriesAt x p idx) 0)) :
    co (seriesAt (mapS1 (fun lv xs => expS (lv.getD 0 0) xs) [leaf] x) p idx) d
      = tc (fun t => Real.exp (curve (seriesAt x p idx) t)) d := by
  rw [utpm_elementwise _ _ x D P s hx p idx hp h d hd]
  simp only [List.map_cons, List.map_nil, List.getD_cons_zero, hleaf]
  exact AV.exp_taylor _ d (by rw [seriesAt_length x D P s hx]; exact hd)
end

/-! ## non-vacuity -/
example : expS (1:ℚ) [0, 1, 0, 0, 0] = [1, 1, 1/2, 1/6, 1/24] := by decide +kernel
example : (0:ℕ) < ([0, 1, 0, 0, 0] : List ℝ).length := by simp

end AV.C01
