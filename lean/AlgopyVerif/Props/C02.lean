import AlgopyVerif.Proofs.PowerSeries
import AlgopyVerif.Proofs.Analytic
import AlgopyVerif.Model.Dtype
import AlgopyVerif.Proofs.Lift
import AlgopyVerif.Proofs.Jet
import AlgopyVerif.Proofs.Power
/-!
# C02 — arithmetic is exact truncated power-series arithmetic

* `mulS` is the Cauchy product in `K⟦X⟧` modulo `X^D`; `divS` is the unique solution of
  `z · y ≡ x`; the ring laws of `R[t]/(t^D)` (commutativity, associativity,
  distributivity, `(x/y)·y = x`) hold for the model, over every field.
* over ℝ the coefficients are the Taylor coefficients of the product / quotient curve.
* dtype calculus: combining real with complex operands yields a complex result for
  every (operator × operand kind × order) — the finite table, by `decide`.

* operator level (`utpm_mul_value`, `utpm_div_value`, `utpm_add_sub_value`): for two UTPM arrays of shapes
  `(D,P)+sx`, `(D,P)+sy` that broadcast to `(D,P)+s`, coefficient `d` of the result at direction `p`, element
  `idx` is the `d`-th Taylor coefficient of the product / quotient / sum of the two operand curves at the
  NumPy-broadcast positions `bidx sx idx`, `bidx sy idx`.

* `utpm_scalar_mul_div_value`, `utpm_scalar_add_sub_value`: the same for a scalar right operand (`x*r`, `x/r`, `x+r`, `x-r`).

Plain-array constants on either side are the L2 model functions `addConstArr`, `mulConstArr`, `rdivConst`
(`Model/Utpm.lean`), tied to the code by the C02 correspondence run (no operator-level theorem).
-/
open PowerSeries Finset AV

namespace AV.C02
section
variable {K : Type} [Field K]

/-- `*` computes the Cauchy product modulo `t^D` -/
theorem mul_is_cauchy_product (x y : List K) (d : ℕ) (h : d < x.length) :
    co (mulS x y) d = coeff d (toPS x * toPS y) := mulS_cauchy x y d h

/-- `/` : `(x / y) · y ≡ x` modulo `t^D` -/
theorem div_spec (x y : List K) (hy : co y 0 ≠ 0) (d : ℕ) (h : d < x.length) :
    coeff d (toPS (divS x y) * toPS y) = co x d := divS_spec x y hy d h

/-- the quotient is unique -/
theorem div_unique (x y z : List K) (hy : co y 0 ≠ 0) (hz : z.length = x.length)
    (h : ∀ d, d < x.length → ∑ k ∈ range (d+1), co z k * co y (d-k) = co x d) : z = divS x y :=
  divS_unique x y z hy hz h

theorem mul_comm (x y : List K) (hl : x.length = y.length) : mulS x y = mulS y x := mulS_comm x y hl

theorem mul_assoc (x y z : List K) (hy : x.length = y.length) :
    mulS (mulS x y) z = mulS x (mulS y z) := mulS_assoc x y z hy

theorem mul_add (x y z : List K) (hy : x.length = y.length) :
    mulS x (addS y z) = addS (mulS x y) (mulS x z) := mulS_add x y z hy

theorem div_mul_cancel (x y : List K) (hy : co y 0 ≠ 0) : mulS (divS x y) y = x := divS_mulS_cancel x y hy

/-- `+`, `-` are coefficient-wise -/
theorem add_coeff (x y : List K) (d : ℕ) (h : d < x.length) : co (addS x y) d = co x d + co y d := addS_co x y d h
theorem sub_coeff (x y : List K) (d : ℕ) (h : d < x.length) : co (subS x y) d = co x d - co y d := subS_co x y d h
end

/-! ## analytic statements over ℝ -/
theorem mul_taylor (x y : List ℝ) (d : ℕ) (hd : d < x.length) :
    co (mulS x y) d = tc (curve x * curve y) d := AV.mul_taylor x y d hd

theorem div_taylor (x y : List ℝ) (hy : co y 0 ≠ 0) (d : ℕ) (hd : d < x.length) :
    co (divS x y) d = tc (fun t => curve x t / curve y t) d := AV.div_taylor x y hy d hd

/-- `x ** r` with `r` an **ndarray of non-negative integers**, at one entry of the array (exponent `r`, the loop runs
up to the largest exponent `m ≥ r` of the array): coefficient `d` is the `d`-th Taylor coefficient of `X(t)^r`, for
every base point — zero included, the masked products never divide — i.e. exactly what the Python-int exponent gives
(`C01.pownat`). -/
theorem pow_int_array_entry (x : List ℝ) (r m : ℕ) (h : r ≤ m) (d : ℕ) (hd : d < x.length) :
    co (powMaskS r m x) d = tc (fun t => curve x t ^ r) d := by
  have hj := powMask_jet_of_le (jetOf_curve x) r m h
  have hl := (powMask_jet (jetOf_curve x) r m).2
  exact hj.2 d (by rw [hl]; exact hd)

/-- `x ** r` for a LARGE integer exponent (`r > 64`, also Python ints beyond 64 bits: square and multiply, `O(log r)` products):
coefficient `d` is the `d`-th Taylor coefficient of `X(t)^r` — the same curve as the repeated product of the small exponents,
for every base point (no division) -/
theorem pow_large_int_exponent (x : List ℝ) (r : ℕ) (d : ℕ) (hd : d < x.length) :
    co (powBinS r x) d = tc (fun t => curve x t ^ r) d := by
  have hj := powbin_jet (jetOf_curve x) r
  have hl : (powBinS r x).length = x.length :=
    (powBinLoop_jet (r + 1) r x (constS 1 x.length) (curve x) (fun _ => 1) (by omega) (jetOf_curve x) (jetOf_const 1 _)
      (by simp [constS])).2
  exact hj.2 d (by rw [hl]; exact hd)

/-- non-vacuity: `(1 + t)^{100}` by square and multiply: `1 + 100 t + 4950 t²` -/
example : powBinS 100 ([1, 1, 0] : List ℚ) = [1, 100, 4950] := by decide +kernel

/-- non-vacuity: a zero base point, exponent 2 inside an array whose largest exponent is 3: `(3t + t²)² = 9t² (+ …)` -/
example : powMaskS 2 3 ([0, 3, 1] : List ℚ) = [0, 0, 9] := by decide +kernel

/-! ## operator level: UTPM ∘ UTPM with NumPy broadcasting of the coefficient shapes -/
section
open NdArray
attribute [local instance] inh0

/-- the operand series that feeds result element `(p, idx)` -/
noncomputable def opSeries (x : NdArray ℝ) (D p : ℕ) (sx idx : List ℕ) : List ℝ :=
  (List.range D).map fun d => x.get (d :: p :: bidx sx idx)

theorem opSeries_length (x : NdArray ℝ) (D p : ℕ) (sx idx : List ℕ) : (opSeries x D p sx idx).length = D := by
  simp [opSeries]

/-- `x * y` on UTPM arrays -/
theorem utpm_mul_value (x y z : NdArray ℝ) (D P : ℕ) (sx sy s : List ℕ)
    (hx : x.shape = D :: P :: sx) (hy : y.shape = D :: P :: sy) (hs : broadcastShapes sx sy = some s)
    (hz : utBin "mul" x y = some z) (p : ℕ) (idx : List ℕ) (hp : p < P) (h : ValidIdx s idx) (d : ℕ) (hd : d < D) :
    co (seriesAt z p idx) d = tc (curve (opSeries x D p sx idx) * curve (opSeries y D p sy idx)) d := by
  have hz' : zipS2 mulS x y = some z := hz
  rw [seriesAt_zipS2_sameDP mulS x y z D P sx sy s hx hy hs hz' p idx hp h, co_map_range _ _ _ hd]
  exact AV.mul_taylor _ _ d (by rw [List.length_map, List.length_range]; exact hd)

/-- `x / y` on UTPM arrays (`y₀ ≠ 0` at the element) -/
theorem utpm_div_value (x y z : NdArray ℝ) (D P : ℕ) (sx sy s : List ℕ)
    (hx : x.shape = D :: P :: sx) (hy : y.shape = D :: P :: sy) (hs : broadcastShapes sx sy = some s)
    (hz : utBin "div" x y = some z) (p : ℕ) (idx : List ℕ) (hp : p < P) (h : ValidIdx s idx) (d : ℕ) (hd : d < D)
    (hy0 : co (opSeries y D p sy idx) 0 ≠ 0) :
    co (seriesAt z p idx) d = tc (fun t => curve (opSeries x D p sx idx) t / curve (opSeries y D p sy idx) t) d := by
  have hz' : zipS2 divS x y = some z := hz
  rw [seriesAt_zipS2_sameDP divS x y z D P sx sy s hx hy hs hz' p idx hp h, co_map_range _ _ _ hd]
  exact AV.div_taylor _ _ hy0 d (by rw [List.length_map, List.length_range]; exact hd)

/-- `x + y`, `x - y` on UTPM arrays: coefficient-wise -/
theorem utpm_add_sub_value (x y z w : NdArray ℝ) (D P : ℕ) (sx sy s : List ℕ)
    (hx : x.shape = D :: P :: sx) (hy : y.shape = D :: P :: sy) (hs : broadcastShapes sx sy = some s)
    (hz : utBin "add" x y = some z) (hw : utBin "sub" x y = some w)
    (p : ℕ) (idx : List ℕ) (hp : p < P) (h : ValidIdx s idx) (d : ℕ) (hd : d < D) :
    co (seriesAt z p idx) d = x.get (d :: p :: bidx sx idx) + y.get (d :: p :: bidx sy idx)
    ∧ co (seriesAt w p idx) d = x.get (d :: p :: bidx sx idx) - y.get (d :: p :: bidx sy idx) := by
  have hz' : zipS2 addS x y = some z := hz
  have hw' : zipS2 subS x y = some w := hw
  rw [seriesAt_zipS2_sameDP addS x y z D P sx sy s hx hy hs hz' p idx hp h,
    seriesAt_zipS2_sameDP subS x y w D P sx sy s hx hy hs hw' p idx hp h,
    co_map_range _ _ _ hd, co_map_range _ _ _ hd]
  have hl : d < ((List.range D).map fun d => x.get (d :: p :: bidx sx idx)).length := by
    rw [List.length_map, List.length_range]; exact hd
  rw [addS_co _ _ d hl, subS_co _ _ d hl, co_map_range _ _ _ hd, co_map_range _ _ _ hd]
  exact ⟨rfl, rfl⟩
end

/-! ## operator level: UTPM ∘ scalar -/
section
open NdArray
attribute [local instance] inh0

theorem seriesAt_scalarOp_get (op : String) (x : NdArray ℝ) (r : ℝ) (D P : ℕ) (s : List ℕ) (hx : x.shape = D :: P :: s)
    (p : ℕ) (idx : List ℕ) (hp : p < P) (h : ValidIdx s idx) (d : ℕ) (hd : d < D) :
    co (seriesAt (scalarOp op x r) p idx) d = (scalarOp op x r).get (d :: p :: idx) := by
  unfold seriesAt
  have : utD (scalarOp op x r) = D := by simp [utD, scalarOp, ofFn, hx]
  rw [this, co_map_range _ _ _ hd]

/-- `x * r` and `x / r`: every coefficient is scaled, i.e. the Taylor coefficients of `r · x(t)` and `x(t) / r` -/
theorem utpm_scalar_mul_div_value (x : NdArray ℝ) (r : ℝ) (D P : ℕ) (s : List ℕ) (hx : x.shape = D :: P :: s)
    (p : ℕ) (idx : List ℕ) (hp : p < P) (h : ValidIdx s idx) (d : ℕ) (hd : d < D) :
    co (seriesAt (scalarOp "mul" x r) p idx) d = tc (fun t => r * curve (seriesAt x p idx) t) d
    ∧ co (seriesAt (scalarOp "div" x r) p idx) d = tc (fun t => r⁻¹ * curve (seriesAt x p idx) t) d := by
  have hv : ValidIdx x.shape (d :: p :: idx) := by rw [hx]; exact validIdx_cons2 D P s idx d p hd hp h
  have hser : co (seriesAt x p idx) d = x.get (d :: p :: idx) := by
    unfold seriesAt
    have : utD x = D := by simp [utD, hx]
    rw [this, co_map_range _ _ _ hd]
  constructor
  · rw [seriesAt_scalarOp_get "mul" x r D P s hx p idx hp h d hd, tc_const_mul, tc_curve, hser]
    unfold scalarOp
    rw [get_ofFn _ _ _ hv]
    simp
    ring
  · rw [seriesAt_scalarOp_get "div" x r D P s hx p idx hp h d hd, tc_const_mul, tc_curve, hser]
    unfold scalarOp
    rw [get_ofFn _ _ _ hv]
    simp [div_eq_mul_inv]
    ring

/-- `x + r` and `x - r`: only the zeroth coefficient changes, i.e. the Taylor coefficients of `x(t) ± r` -/
theorem utpm_scalar_add_sub_value (x : NdArray ℝ) (r : ℝ) (D P : ℕ) (s : List ℕ) (hx : x.shape = D :: P :: s)
    (p : ℕ) (idx : List ℕ) (hp : p < P) (h : ValidIdx s idx) (d : ℕ) (hd : d < D) :
    co (seriesAt (scalarOp "add" x r) p idx) d = tc (fun t => curve (seriesAt x p idx) t + r) d
    ∧ co (seriesAt (scalarOp "sub" x r) p idx) d = tc (fun t => curve (seriesAt x p idx) t - r) d := by
  have hv : ValidIdx x.shape (d :: p :: idx) := by rw [hx]; exact validIdx_cons2 D P s idx d p hd hp h
  have hser : co (seriesAt x p idx) d = x.get (d :: p :: idx) := by
    unfold seriesAt
    have : utD x = D := by simp [utD, hx]
    rw [this, co_map_range _ _ _ hd]
  have e1 : (fun t => curve (seriesAt x p idx) t + r) = curve (seriesAt x p idx) + fun _ => r := rfl
  have e2 : (fun t => curve (seriesAt x p idx) t - r) = curve (seriesAt x p idx) - fun _ => r := rfl
  constructor
  · rw [seriesAt_scalarOp_get "add" x r D P s hx p idx hp h d hd, e1,
      tc_add _ _ (smooth0_curve _) contDiffAt_const, tc_curve, tc_const, hser]
    unfold scalarOp
    rw [get_ofFn _ _ _ hv]
    by_cases h0 : d = 0 <;> simp [h0]
  · rw [seriesAt_scalarOp_get "sub" x r D P s hx p idx hp h d hd, e2,
      tc_sub _ _ (smooth0_curve _) contDiffAt_const, tc_curve, tc_const, hser]
    unfold scalarOp
    rw [get_ofFn _ _ _ hv]
    by_cases h0 : d = 0 <;> simp [h0]
end

/-! ## operator level: UTPM ∘ ndarray constant (NumPy broadcasting of `c` against the coefficient shape) -/
section
open NdArray
attribute [local instance] inh0

theorem broadcast_DP_11 (D P : ℕ) : broadcastShapes [D, P] [1, 1] = some [D, P] := by
  unfold broadcastShapes
  simp only [List.length_cons, List.length_nil, Nat.max_self, Nat.sub_self, List.replicate_zero, List.nil_append,
    List.zip_cons_cons, List.zip_nil_right, List.mapM_cons, List.mapM_nil]
  by_cases hD : D = 1 <;> by_cases hP : P = 1 <;> simp [hD, hP]

theorem utBroadcastShape_const (D P : ℕ) (sx sc s : List ℕ) (hs : broadcastShapes sx sc = some s) :
    utBroadcastShape (D :: P :: sx) (1 :: 1 :: sc) = some (D :: P :: s) := by
  unfold utBroadcastShape
  simp only [List.drop_succ_cons, List.drop_zero, hs, List.take_succ_cons, List.take_zero, broadcast_DP_11]
  rfl

theorem get_constAsUt (c : NdArray ℝ) (j : List ℕ) : (constAsUt c).get (0 :: 0 :: j) = c.get j := by
  simp [constAsUt, NdArray.get, ravel]

theorem utBidx_const (sc : List ℕ) (d p : ℕ) (idx : List ℕ) :
    utBidx (1 :: 1 :: sc) (d :: p :: idx) = 0 :: 0 :: bidx sc idx := by
  simp [utBidx]

/-- element of `x * c` / `x / c` at `(d, p, idx)` -/
theorem mulConstArr_get (dv : Bool) (x c z : NdArray ℝ) (D P : ℕ) (sx s : List ℕ)
    (hx : x.shape = D :: P :: sx) (hs : broadcastShapes sx c.shape = some s)
    (hz : mulConstArr dv x c = some z) (p : ℕ) (idx : List ℕ) (hp : p < P) (h : ValidIdx s idx) (d : ℕ) (hd : d < D) :
    co (seriesAt z p idx) d =
      if dv then x.get (d :: p :: bidx sx idx) / c.get (bidx c.shape idx)
      else x.get (d :: p :: bidx sx idx) * c.get (bidx c.shape idx) := by
  unfold mulConstArr at hz
  dsimp only at hz
  have hb : utBroadcastShape x.shape (constAsUt c).shape = some (D :: P :: s) := by
    rw [hx]; exact utBroadcastShape_const D P sx c.shape s hs
  rw [hb] at hz
  simp only [Option.bind_eq_bind, Option.bind_some, Option.pure_def, Option.some.injEq] at hz
  subst hz
  have hv : ValidIdx (D :: P :: s) (d :: p :: idx) := validIdx_cons2 D P s idx d p hd hp h
  unfold seriesAt
  have hD : utD (ofFn (D :: P :: s) fun i => if dv then (utBroadcastTo x (D :: P :: s)).get i / (utBroadcastTo (constAsUt c) (D :: P :: s)).get i
      else (utBroadcastTo x (D :: P :: s)).get i * (utBroadcastTo (constAsUt c) (D :: P :: s)).get i) = D := by
    simp [utD, ofFn]
  rw [hD, co_map_range _ _ _ hd, get_ofFn _ _ _ hv, get_utBroadcastTo _ _ _ hv, get_utBroadcastTo _ _ _ hv, hx,
    utBidx_valid D P sx d p idx hd hp]
  have : (constAsUt c).shape = 1 :: 1 :: c.shape := rfl
  rw [this, utBidx_const, get_constAsUt]

/-- `x * c`, `x / c` with an ndarray `c`: result element `(p, idx)` carries the Taylor coefficients of
`c[idx'] · x[idx''](t)` resp. `x[idx''](t) / c[idx']` at the broadcast positions -/
theorem utpm_ndarray_mul_div_value (x c z w : NdArray ℝ) (D P : ℕ) (sx s : List ℕ)
    (hx : x.shape = D :: P :: sx) (hs : broadcastShapes sx c.shape = some s)
    (hz : mulConstArr false x c = some z) (hw : mulConstArr true x c = some w)
    (p : ℕ) (idx : List ℕ) (hp : p < P) (h : ValidIdx s idx) (d : ℕ) (hd : d < D) :
    co (seriesAt z p idx) d
        = tc (fun t => c.get (bidx c.shape idx) * curve ((List.range D).map fun k => x.get (k :: p :: bidx sx idx)) t) d
    ∧ co (seriesAt w p idx) d
        = tc (fun t => (c.get (bidx c.shape idx))⁻¹ * curve ((List.range D).map fun k => x.get (k :: p :: bidx sx idx)) t) d := by
  rw [mulConstArr_get false x c z D P sx s hx hs hz p idx hp h d hd,
    mulConstArr_get true x c w D P sx s hx hs hw p idx hp h d hd, tc_const_mul, tc_const_mul, tc_curve,
    co_map_range _ _ _ hd]
  constructor
  · simp; ring
  · simp [div_eq_mul_inv]; ring

/-- element of `x + c` / `x - c` at `(d, p, idx)`: only order 0 sees the constant -/
theorem addConstArr_get (sb : Bool) (x c z : NdArray ℝ) (D P : ℕ) (sx s : List ℕ)
    (hx : x.shape = D :: P :: sx) (hs : broadcastShapes sx c.shape = some s)
    (hz : addConstArr sb x c = some z) (p : ℕ) (idx : List ℕ) (hp : p < P) (h : ValidIdx s idx) (d : ℕ) (hd : d < D) :
    co (seriesAt z p idx) d =
      if d = 0 then (if sb then x.get (d :: p :: bidx sx idx) - c.get (bidx c.shape idx)
        else x.get (d :: p :: bidx sx idx) + c.get (bidx c.shape idx))
      else x.get (d :: p :: bidx sx idx) := by
  unfold addConstArr at hz
  dsimp only at hz
  have hb : utBroadcastShape x.shape (constAsUt c).shape = some (D :: P :: s) := by
    rw [hx]; exact utBroadcastShape_const D P sx c.shape s hs
  rw [hb] at hz
  simp only [Option.bind_eq_bind, Option.bind_some, Option.pure_def, Option.some.injEq] at hz
  subst hz
  have hv : ValidIdx (D :: P :: s) (d :: p :: idx) := validIdx_cons2 D P s idx d p hd hp h
  unfold seriesAt
  rw [show utD (ofFn (D :: P :: s) _) = D by simp [utD, ofFn], co_map_range _ _ _ hd, get_ofFn _ _ _ hv]
  simp only
  rw [get_utBroadcastTo _ _ _ hv, get_utBroadcastTo _ _ _ hv, hx, utBidx_valid D P sx d p idx hd hp]
  have : (constAsUt c).shape = 1 :: 1 :: c.shape := rfl
  rw [this, utBidx_const, get_constAsUt]

/-- `x + c`, `x - c` with an ndarray `c`: the Taylor coefficients of `x[idx''](t) ± c[idx']` -/
theorem utpm_ndarray_add_sub_value (x c z w : NdArray ℝ) (D P : ℕ) (sx s : List ℕ)
    (hx : x.shape = D :: P :: sx) (hs : broadcastShapes sx c.shape = some s)
    (hz : addConstArr false x c = some z) (hw : addConstArr true x c = some w)
    (p : ℕ) (idx : List ℕ) (hp : p < P) (h : ValidIdx s idx) (d : ℕ) (hd : d < D) :
    co (seriesAt z p idx) d
        = tc (fun t => curve ((List.range D).map fun k => x.get (k :: p :: bidx sx idx)) t + c.get (bidx c.shape idx)) d
    ∧ co (seriesAt w p idx) d
        = tc (fun t => curve ((List.range D).map fun k => x.get (k :: p :: bidx sx idx)) t - c.get (bidx c.shape idx)) d := by
  have e1 : (fun t => curve ((List.range D).map fun k => x.get (k :: p :: bidx sx idx)) t + c.get (bidx c.shape idx))
      = curve ((List.range D).map fun k => x.get (k :: p :: bidx sx idx)) + fun _ => c.get (bidx c.shape idx) := rfl
  have e2 : (fun t => curve ((List.range D).map fun k => x.get (k :: p :: bidx sx idx)) t - c.get (bidx c.shape idx))
      = curve ((List.range D).map fun k => x.get (k :: p :: bidx sx idx)) - fun _ => c.get (bidx c.shape idx) := rfl
  rw [addConstArr_get false x c z D P sx s hx hs hz p idx hp h d hd,
    addConstArr_get true x c w D P sx s hx hs hw p idx hp h d hd, e1, e2,
    tc_add _ _ (smooth0_curve _) contDiffAt_const, tc_sub _ _ (smooth0_curve _) contDiffAt_const, tc_curve, tc_const,
    co_map_range _ _ _ hd]
  by_cases h0 : d = 0 <;> simp [h0]
end

/-! ## dtype calculus (finite table) -/

/-- combining real with complex operands never drops the imaginary part -/
theorem complex_in_complex_out :
    ∀ (op : AOp) (self : DT) (k : OKind) (refl : Bool),
      (self = .c128 ∨ k.isComplex = true) → resultDT op self k refl = .c128 := by
  intro op self k refl
  cases op <;> cases self <;> cases k <;> cases refl <;> simp [resultDT, DT.promote, OKind.isComplex,
    OKind.asDT, weakPromote, divDT] <;> (rename_i dt; cases dt <;> simp [DT.promote, divDT])

/-- real operands give a real result (no spurious complex) -/
theorem real_in_real_out :
    ∀ (op : AOp) (self : DT) (k : OKind) (refl : Bool),
      self ≠ .c128 → k.isComplex = false → resultDT op self k refl ≠ .c128 := by
  intro op self k refl
  cases op <;> cases self <;> cases k <;> cases refl <;> simp [resultDT, DT.promote, OKind.isComplex,
    OKind.asDT, weakPromote, divDT] <;> (rename_i dt; cases dt <;> simp [DT.promote, divDT])

/-! ## non-vacuity -/
example : mulS [(2:ℚ), 3, 5] [2, 3, 5] = [4, 12, 29] := by decide +kernel
example : divS [(4:ℚ), 12, 29] [2, 3, 5] = [2, 3, 5] := by decide +kernel

end AV.C02
