import AlgopyVerif.Proofs.PowerSeries
import AlgopyVerif.Proofs.Analytic
import AlgopyVerif.Model.Dtype
/-!
# C02 — arithmetic is exact truncated power-series arithmetic

* `mulS` is the Cauchy product in `K⟦X⟧` modulo `X^D`; `divS` is the unique solution of
  `z · y ≡ x`; the ring laws of `R[t]/(t^D)` (commutativity, associativity,
  distributivity, `(x/y)·y = x`) hold for the model, over every field.
* over ℝ the coefficients are the Taylor coefficients of the product / quotient curve.
* dtype calculus: combining real with complex operands yields a complex result for
  every (operator × operand kind × order) — the finite table, by `decide`.

The element-wise lifting over NumPy-broadcast shapes and operand kinds is the L2 model
(`Model/Utpm.lean`), tied to the code by the C02 correspondence run.
-/
open PowerSeries Finset AV

namespace AV.C02
section
variable {K : Type} [Field K]

/-- `*` computes the Cauchy product modulo `t^D` -/
theorem mul_is_cauchy_product (x y : List K) (d : ℕ) (h : d < x.length) :
    co (mulS x y) d = coeff d (toPS x * toPS y) := mulS_cauchy x y d h

/-- `/` : `(x / y) · y ≡ x` modulo `t^D` -/
theorem div_spec (x y : List K) (hy : co y 0 ≠ 0) (d : ℕ) (h : d < x.length) :
    coeff d (toPS (divS x y) * toPS y) = co x d := divS_spec x y hy d h

/-- the quotient is unique -/
theorem div_unique (x y z : List K) (hy : co y 0 ≠ 0) (hz : z.length = x.length)
    (h : ∀ d, d < x.length → ∑ k ∈ range (d+1), co z k * co y (d-k) = co x d) : z = divS x y :=
  divS_unique x y z hy hz h

theorem mul_comm (x y : List K) (hl : x.length = y.length) : mulS x y = mulS y x := mulS_comm x y hl

theorem mul_assoc (x y z : List K) (hy : x.length = y.length) :
    mulS (mulS x y) z = mulS x (mulS y z) := mulS_assoc x y z hy

theorem mul_add (x y z : List K) (hy : x.length = y.length) :
    mulS x (addS y z) = addS (mulS x y) (mulS x z) := mulS_add x y z hy

theorem div_mul_cancel (x y : List K) (hy : co y 0 ≠ 0) : mulS (divS x y) y = x := divS_mulS_cancel x y hy

/-- `+`, `-` are coefficient-wise -/
theorem add_coeff (x y : List K) (d : ℕ) (h : d < x.length) : co (addS x y) d = co x d + co y d := addS_co x y d h
theorem sub_coeff (x y : List K) (d : ℕ) (h : d < x.length) : co (subS x y) d = co x d - co y d := subS_co x y d h
end

/-! ## analytic statements over ℝ -/
theorem mul_taylor (x y : List ℝ) (d : ℕ) (hd : d < x.length) :
    co (mulS x y) d = tc (curve x * curve y) d := AV.mul_taylor x y d hd

theorem div_taylor (x y : List ℝ) (hy : co y 0 ≠ 0) (d : ℕ) (hd : d < x.length) :
    co (divS x y) d = tc (fun t => curve x t / curve y t) d := AV.div_taylor x y hy d hd

/-! ## dtype calculus (finite table) -/

/-- combining real with complex operands never drops the imaginary part -/
theorem complex_in_complex_out :
    ∀ (op : AOp) (self : DT) (k : OKind) (refl : Bool),
      (self = .c128 ∨ k.isComplex = true) → resultDT op self k refl = .c128 := by
  intro op self k refl
  cases op <;> cases self <;> cases k <;> cases refl <;> simp [resultDT, DT.promote, OKind.isComplex,
    OKind.asDT, weakPromote, divDT] <;> (rename_i dt; cases dt <;> simp [DT.promote, divDT])

/-- real operands give a real result (no spurious complex) -/
theorem real_in_real_out :
    ∀ (op : AOp) (self : DT) (k : OKind) (refl : Bool),
      self ≠ .c128 → k.isComplex = false → resultDT op self k refl ≠ .c128 := by
  intro op self k refl
  cases op <;> cases self <;> cases k <;> cases refl <;> simp [resultDT, DT.promote, OKind.isComplex,
    OKind.asDT, weakPromote, divDT] <;> (rename_i dt; cases dt <;> simp [DT.promote, divDT])

/-! ## non-vacuity -/
example : mulS [(2:ℚ), 3, 5] [2, 3, 5] = [4, 12, 29] := by decide +kernel
example : divS [(4:ℚ), 12, 29] [2, 3, 5] = [2, 3, 5] := by decide +kernel

end AV.C02
