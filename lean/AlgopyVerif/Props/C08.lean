import AlgopyVerif.Proofs.Factor
import AlgopyVerif.Proofs.EighStep
import AlgopyVerif.Proofs.FactorTri
import AlgopyVerif.Proofs.FactorTall
import AlgopyVerif.Proofs.FactorWide
import AlgopyVerif.Proofs.SvdBlock
/-!
# C08 — matrix factorizations satisfy their defining equations modulo t^D

For every size `n`, every order `d ≥ 1` and coefficient sequences `A, Q, R, L : ℕ → Matrix n n K`
related by the order-`d` *step equations* of the kernels (the body of the `for D in range(1, DT)`
loops of `_qr_rectangular` for square input and of `_cholesky`), under the zeroth-order contract of
the NumPy leaf (`Q₀ᵀQ₀ = I`, resp. `L₀ · L₀⁻¹ = I`):

* `qr_defining_equation`:   `Σ_{k≤d} Q_k R_{d-k} = A_d`            (`Q·R = A` at order `d`);
* `qr_orthogonality`:       `Σ_{k≤d} Q_kᵀ Q_{d-k} = 0`            (`QᵀQ = I` at order `d`);
* `cholesky_defining_equation`: `Σ_{k≤d} L_k L_{d-k}ᵀ = A_d` for symmetric `A_d`, using
  `projection_splits_symmetric`: `Φ(G) + Φ(G)ᵀ = G` for the code's projection matrix
  (strictly lower part plus half the diagonal).

That the implementation's output satisfies these step equations is evaluated in the C08 run on every
generated case (the tie of the theorem's hypotheses to the code), next to the residuals of all
defining equations.  `lu_defining_equation`: the step of `UTPM.lu`/`lu2` (`F = L₀⁻¹(WᵀA_d − Σ L_{d-i}U_i)U₀⁻¹`,
`U_d = triu(F)U₀`, `L_d = L₀ tril(F,-1)`) gives `Σ_{k≤d} L_k U_{d-k} = (WᵀA)_d`, with the masks strictly lower /
upper by construction.  `eigh_orthogonality`, `eigh_defining_equation`, `eigh_block_structure`: the step of
`UTPM._eigh1` (`S = -½ Σ Q_kᵀQ_{d-k}`, `K = F + Q₀ᵀA_dQ₀ + SΛ₀ + Λ₀S`, `Λ_d = K` on the clusters of equal eigenvalues,
`Q_d = Q₀(K∘H + S)`) gives `(QᵀQ)_d = 0` and `(QᵀAQ)_d = Λ_d` — the full symmetric eigendecomposition when the
eigenvalues of `A₀` are distinct (clusters are singletons), the relaxed block problem otherwise.  Triangular structure at every order
(`qr_R_upper_triangular`, `cholesky_L_lower_triangular`, `lu_U_upper_triangular`, `lu_L_unit_lower_triangular`).
`svd_from_block_eigh`, `svd_square_full_rank`: `UTPM.svd` reformulates to `eigh` of `B = [[0, A], [Aᵀ, 0]]`; over any commutative ring
(`ℝ[t]/(t^D)`) the eigen-equation of `B` for the selected columns *is* `A V = U diag(s)`, `Aᵀ U = V diag(s)`, and for a square matrix
of full rank with `V Vᵀ = 1` this is `A = U diag(s) Vᵀ`.  Not proved
(partial): full QR (wide QR: `qr_wide_defining_equation`; tall QR: `qr_tall_defining_equation`, `qr_tall_orthogonality`, `qr_tall_R_upper_triangular`), the recursion of `_eigh` over clusters for repeated
eigenvalues, `eig`, orthogonality and the `qr_full` completion of `svd` — checked by residuals on the implementation.
-/
open Matrix AV.Factor
namespace AV.C08
variable {n : Type} [Fintype n] [DecidableEq n] {K : Type} [Field K] [CharZero K]

theorem qr_defining_equation (lt : n → n → Prop) [DecidableRel lt] (A Q R : ℕ → Matrix n n K) (Rinv : Matrix n n K)
    (d : ℕ) (hd : 1 ≤ d) (h0 : (Q 0)ᵀ * Q 0 = 1) (st : QRStep lt A Q R Rinv d) :
    ∑ k ∈ Finset.range (d + 1), Q k * R (d - k) = A d := qr_eq lt A Q R Rinv d hd h0 st

theorem qr_orthogonality (lt : n → n → Prop) [DecidableRel lt] (A Q R : ℕ → Matrix n n K) (Rinv : Matrix n n K)
    (d : ℕ) (hd : 1 ≤ d) (h0 : (Q 0)ᵀ * Q 0 = 1) (st : QRStep lt A Q R Rinv d) :
    ∑ k ∈ Finset.range (d + 1), (Q k)ᵀ * Q (d - k) = 0 := qtq_eq lt A Q R Rinv d hd h0 st

theorem projection_splits_symmetric (lt : n → n → Prop) [DecidableRel lt]
    (htri : ∀ i j, lt i j ∨ i = j ∨ lt j i) (hasym : ∀ i j, lt i j → ¬ lt j i) (hirr : ∀ i, ¬ lt i i)
    (G : Matrix n n K) (hG : Gᵀ = G) : Phi lt G + (Phi lt G)ᵀ = G := Phi_add_transpose lt htri hasym hirr G hG

theorem cholesky_defining_equation (lt : n → n → Prop) [DecidableRel lt]
    (htri : ∀ i j, lt i j ∨ i = j ∨ lt j i) (hasym : ∀ i j, lt i j → ¬ lt j i) (hirr : ∀ i, ¬ lt i i)
    (A L : ℕ → Matrix n n K) (L0inv : Matrix n n K) (d : ℕ) (hd : 1 ≤ d)
    (hinv : L 0 * L0inv = 1) (hA : (A d)ᵀ = A d) (st : CholStep lt A L L0inv d) :
    ∑ k ∈ Finset.range (d + 1), L k * (L (d - k))ᵀ = A d :=
  chol_eq lt htri hasym hirr A L L0inv d hd hinv hA st

theorem lu_defining_equation (lt : n → n → Prop) [DecidableRel lt] (B L U : ℕ → Matrix n n K) (L0inv U0inv : Matrix n n K)
    (d : ℕ) (hd : 1 ≤ d) (hL0 : L 0 * L0inv = 1) (hU0 : U0inv * U 0 = 1) (st : LUStep lt B L U L0inv U0inv d) :
    ∑ k ∈ Finset.range (d + 1), L k * U (d - k) = B d := lu_eq lt B L U L0inv U0inv d hd hL0 hU0 st

/-- `_eigh1`, `QᵀQ = I` at order `d` -/
theorem eigh_orthogonality (same : n → n → Prop) [DecidableRel same] (A Q L : ℕ → Matrix n n K) (l : n → K)
    (Hm : Matrix n n K) (d : ℕ) (hd : 1 ≤ d) (h0 : (Q 0)ᵀ * Q 0 = 1) (hA : ∀ k, (A k)ᵀ = A k)
    (hss : ∀ r c, same r c → same c r) (hH0 : ∀ r c, same r c → Hm r c = 0)
    (hH1 : ∀ r c, ¬ same r c → Hm r c * (l c - l r) = 1) (st : Eigh1Step same A Q L l Hm d) :
    ∑ k ∈ Finset.range (d + 1), (Q k)ᵀ * Q (d - k) = 0 :=
  eigh1_orthogonality hd h0 hA hss hH0 hH1 st

/-- `_eigh1`, `QᵀAQ = Λ` at order `d` (all index triples `i + j + k = d`) -/
theorem eigh_defining_equation (same : n → n → Prop) [DecidableRel same] (A Q L : ℕ → Matrix n n K) (l : n → K)
    (Hm : Matrix n n K) (d : ℕ) (hd : 1 ≤ d) (h0 : (Q 0)ᵀ * Q 0 = 1) (hA : ∀ k, (A k)ᵀ = A k)
    (hA0 : A 0 * Q 0 = Q 0 * Matrix.diagonal l)
    (hss : ∀ r c, same r c → same c r) (hH0 : ∀ r c, same r c → Hm r c = 0)
    (hH1 : ∀ r c, ¬ same r c → Hm r c * (l c - l r) = 1) (st : Eigh1Step same A Q L l Hm d) :
    tripleAll (fun k => (Q k)ᵀ) A Q d = L d :=
  eigh1_defining hd h0 hA hA0 hss hH0 hH1 st

/-- `Λ_d` is zero outside the clusters (diagonal when the eigenvalues of `A₀` are distinct) -/
theorem eigh_block_structure (same : n → n → Prop) [DecidableRel same] (A Q L : ℕ → Matrix n n K) (l : n → K)
    (Hm : Matrix n n K) (d : ℕ) (st : Eigh1Step same A Q L l Hm d) (r c : n) (h : ¬ same r c) : L d r c = 0 :=
  eigh1_block st r c h

/-- non-vacuity of the `H` hypotheses: distinct eigenvalues `1, 2` with `same = (=)` -/
example : ∃ Hm : Matrix (Fin 2) (Fin 2) ℚ, (∀ r c, r = c → Hm r c = 0) ∧
    (∀ r c, ¬ r = c → Hm r c * ((![1, 2] : Fin 2 → ℚ) c - (![1, 2] : Fin 2 → ℚ) r) = 1) :=
  ⟨!![0, 1; -1, 0], by
    intro r c h; subst h; fin_cases r <;> simp, by
    intro r c h; fin_cases r <;> fin_cases c <;> simp at h ⊢ <;> norm_num⟩

/-! ## triangular structure at every order -/

theorem qr_R_upper_triangular (lt : n → n → Prop) [DecidableRel lt]
    (hneg : ∀ i k j, lt j i → lt k i ∨ lt j k) (hasym : ∀ i j, lt i j → ¬ lt j i)
    (A Q R : ℕ → Matrix n n K) (Rinv : Matrix n n K) (d : ℕ)
    (hinv : Rinv * R 0 = 1) (hR0 : IsUpper lt (R 0)) (st : QRStep lt A Q R Rinv d) : IsUpper lt (R d) :=
  qr_R_upper lt hneg hasym A Q R Rinv d hinv hR0 st

theorem cholesky_L_lower_triangular (lt : n → n → Prop) [DecidableRel lt]
    (hneg : ∀ i k j, lt j i → lt k i ∨ lt j k) (hasym : ∀ i j, lt i j → ¬ lt j i) (hirr : ∀ i, ¬ lt i i)
    (A L : ℕ → Matrix n n K) (L0inv : Matrix n n K) (d : ℕ) (hL0 : IsLower lt (L 0)) (st : CholStep lt A L L0inv d) :
    IsLower lt (L d) := chol_L_lower lt hneg hasym hirr A L L0inv d hL0 st

theorem lu_U_upper_triangular (lt : n → n → Prop) [DecidableRel lt] (hneg : ∀ i k j, lt j i → lt k i ∨ lt j k)
    (B L U : ℕ → Matrix n n K) (L0inv U0inv : Matrix n n K) (d : ℕ) (hU0 : IsUpper lt (U 0))
    (st : LUStep lt B L U L0inv U0inv d) : IsUpper lt (U d) := lu_U_upper lt hneg B L U L0inv U0inv d hU0 st

theorem lu_L_unit_lower_triangular (lt : n → n → Prop) [DecidableRel lt]
    (hneg : ∀ i k j, lt j i → lt k i ∨ lt j k) (hasym : ∀ i j, lt i j → ¬ lt j i)
    (B L U : ℕ → Matrix n n K) (L0inv U0inv : Matrix n n K) (d : ℕ) (hL0 : IsLower lt (L 0))
    (st : LUStep lt B L U L0inv U0inv d) : IsLower lt (L d) ∧ ∀ i, L d i i = 0 :=
  lu_L_lower_unit lt hneg hasym B L U L0inv U0inv d hL0 st

/-- non-vacuity: `<` on `Fin 3` is negatively transitive -/
example : ∀ i k j : Fin 3, j < i → k < i ∨ j < k := by decide

/-- the masks used by the LU step: `tril(F,-1)` vanishes on and above the diagonal, `triu(F)` below it -/
theorem lu_masks (lt : n → n → Prop) [DecidableRel lt] (M : Matrix n n K) (i j : n) :
    (¬ lt j i → PL lt M i j = 0) ∧ (lt j i → PU lt M i j = 0) :=
  ⟨PL_strict lt M i j, PU_upper lt M i j⟩

/-- non-vacuity: the order relation hypotheses are met by `<` on `Fin 3` -/
example : (∀ i j : Fin 3, i < j ∨ i = j ∨ j < i) ∧ (∀ i j : Fin 3, i < j → ¬ j < i) ∧ (∀ i : Fin 3, ¬ i < i) := by
  refine ⟨?_, ?_, ?_⟩ <;> decide


section tall_qr
variable {m : Type} [Fintype m] [DecidableEq m]

/-- **tall QR** (`M > N`; `Q` is `m × n` with orthonormal columns, `R` is `n × n`): one pass of the loop of `_qr_rectangular`, whose
last step is `Q_d = (H − Q_0 R_d) R_0⁻¹`, gives the order-`d` coefficient of `Q R = A` … -/
theorem qr_tall_defining_equation (lt : n → n → Prop) [DecidableRel lt] (A Q : ℕ → Matrix m n K) (R : ℕ → Matrix n n K)
    (Rinv : Matrix n n K) (d : ℕ) (hd : 1 ≤ d) (hinv : Rinv * R 0 = 1) (st : QRTallStep lt A Q R Rinv d) :
    ∑ k ∈ Finset.range (d + 1), Q k * R (d - k) = A d := qr_tall_eq lt A Q R Rinv d hd hinv st

/-- … of `QᵀQ = 1` (columns stay orthonormal at every order) … -/
theorem qr_tall_orthogonality (lt : n → n → Prop) [DecidableRel lt] (A Q : ℕ → Matrix m n K) (R : ℕ → Matrix n n K)
    (Rinv : Matrix n n K) (d : ℕ) (hd : 1 ≤ d) (h0 : (Q 0)ᵀ * Q 0 = 1) (hinv' : R 0 * Rinv = 1) (st : QRTallStep lt A Q R Rinv d) :
    ∑ k ∈ Finset.range (d + 1), (Q k)ᵀ * Q (d - k) = 0 := qr_tall_qtq lt A Q R Rinv d hd h0 hinv' st

/-- … and an upper triangular `R_d` -/
theorem qr_tall_R_upper_triangular (lt : n → n → Prop) [DecidableRel lt] (hneg : ∀ i k j, lt j i → lt k i ∨ lt j k)
    (hasym : ∀ i j, lt i j → ¬ lt j i) (A Q : ℕ → Matrix m n K) (R : ℕ → Matrix n n K) (Rinv : Matrix n n K) (d : ℕ)
    (hinv : Rinv * R 0 = 1) (hR0 : IsUpper lt (R 0)) (st : QRTallStep lt A Q R Rinv d) : IsUpper lt (R d) :=
  qr_tall_R_upper lt hneg hasym A Q R Rinv d hinv hR0 st

/-- non-vacuity: a 2 × 1 matrix with an orthonormal column meets `Q_0ᵀ Q_0 = 1` without `Q_0 Q_0ᵀ = 1` -/
example : (!![(1:ℚ); 0])ᵀ * !![(1:ℚ); 0] = 1 ∧ !![(1:ℚ); 0] * (!![(1:ℚ); 0])ᵀ ≠ 1 := by
  constructor
  · ext i j; fin_cases i; fin_cases j; simp [Matrix.mul_apply]
  · intro h
    have := congrFun (congrFun h 1) 1
    simp [Matrix.mul_apply] at this
end tall_qr

section wide_qr
variable {l : Type} [Fintype l]

/-- **wide QR** (`M < N`: `A = [A1 A2]`, `(Q, R1) = qr(A1)` by the square kernel, `R2 = Q(t)ᵀ A2(t)` by `_dot`): with the
orthogonality `Σ Q_kᵀ Q_{d−k} = δ_{d0}` that the square step delivers (`qr_orthogonality`, and `Q_0ᵀ Q_0 = 1` at order 0) the
second block satisfies `Σ Q_k R2_{d−k} = (A2)_d` for every `d < D` — `Q(t) Q(t)ᵀ = 1` follows from `Q(t)ᵀ Q(t) = 1` because
square matrices over the commutative ring `K⟦X⟧/(X^D)` with a left inverse have a right inverse (`Proofs/FactorWide.lean`). -/
theorem qr_wide_defining_equation (Q : ℕ → Matrix n n K) (A2 R2 : ℕ → Matrix n l K) (D : ℕ)
    (hQ : ∀ d, d < D → ∑ k ∈ Finset.range (d + 1), (Q k)ᵀ * Q (d - k) = if d = 0 then 1 else 0)
    (hR : ∀ d, d < D → R2 d = ∑ k ∈ Finset.range (d + 1), (Q k)ᵀ * A2 (d - k)) (d : ℕ) (hd : d < D) :
    ∑ k ∈ Finset.range (d + 1), Q k * R2 (d - k) = A2 d := qr_wide_eq_range Q A2 R2 D hQ hR d hd

/-- non-vacuity: the constant identity polynomial meets the orthogonality hypothesis at every order -/
example (d : ℕ) : ∑ k ∈ Finset.range (d + 1), ((fun e => if e = 0 then (1 : Matrix (Fin 2) (Fin 2) ℚ) else 0) k)ᵀ *
    (fun e => if e = 0 then (1 : Matrix (Fin 2) (Fin 2) ℚ) else 0) (d - k) = if d = 0 then 1 else 0 := by
  rw [Finset.sum_eq_single 0]
  · simp
  · intro b _ hb; simp [hb]
  · simp
end wide_qr

section svd
variable {S : Type} [CommRing S] {m n r : Type} [Fintype m] [Fintype n] [Fintype r] [DecidableEq m] [DecidableEq n] [DecidableEq r]

/-- `UTPM.svd` through `eigh` of the Jordan–Wielandt matrix: the eigen-equation for the selected columns `[U₁; V₁]` is the pair of
singular-vector equations, also after the scaling by `√2` (any scalar `c`) -/
theorem svd_from_block_eigh (A : Matrix m n S) (U1 : Matrix m r S) (V1 : Matrix n r S) (sig : r → S) (c : S)
    (h : fromBlocks (0 : Matrix m m S) A Aᵀ (0 : Matrix n n S) * fromRows U1 V1 = fromRows U1 V1 * diagonal sig) :
    A * (c • V1) = (c • U1) * diagonal sig ∧ Aᵀ * (c • U1) = (c • V1) * diagonal sig :=
  AV.SvdBlock.svd_equations A U1 V1 sig c h

/-- square, full rank: `A = U diag(s) Vᵀ` -/
theorem svd_square_full_rank (A U V : Matrix n n S) (sig : n → S) (h : A * V = U * diagonal sig) (hV : V * Vᵀ = 1) :
    A = U * diagonal sig * Vᵀ :=
  AV.SvdBlock.svd_reconstruct A U V sig h hV
end svd

end AV.C08
