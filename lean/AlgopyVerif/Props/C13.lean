import AlgopyVerif.Proofs.Index
/-!
# C13 — shape-manipulating operations act slice-wise like NumPy, with view semantics

L1 model of NumPy's basic indexing (`Model/Index.lean`: ints, negative ints, slices with steps and
out-of-range / `None` bounds, `Ellipsis`, `newaxis`), validated against the real NumPy by the
"mini-NumPy vs NumPy" stream of the C13 run (random and, in the thorough tier, exhaustive small index
expressions).  Theorems, for every `D`, `P`, shape and index expression:

* `getitem_prefix_law`: indexing `(D,P)+shape` data with `(:, :) ++ idx` (what `UTPM.__getitem__`
  does) yields shape `(D,P)+shape'` and maps `(d, p, j) ↦ (d, p, m j)` where `(shape', m)` is the
  result of `idx` on a single coefficient slice;
* `getitem_slicewise`: hence `x[idx].data[d,p] = x.data[d,p][idx]` element by element — and, read with
  cell identifiers as elements, `x[idx]` consists of cells of `x` (a view: writing through it
  updates the parent);
* `sum_axis_nonneg`, `sum_axis_neg`: the axis arithmetic of `UTPM.sum`.

`reshape, transpose, tile, diag, triu/tril, trace, conj/real/imag, fft/ifft, zeros/ones(-like),
symvec/vecsym` and item assignment are checked slice-wise against NumPy on the implementation
(partial: no theorem; `reshape`/`transpose`/`sum(axis)` additionally against the model).
-/
open AV NdArray
namespace AV.C13

theorem getitem_prefix_law (D P : Nat) (s : List Nat) (idx : List Idx) (s' : List Nat) (m : List Nat → List Nat)
    (h : getitemMap s idx = some (s', m)) :
    ∃ m', getitemMap (D :: P :: s) (fullSl :: fullSl :: idx) = some (D :: P :: s', m') ∧
      ∀ d p j, m' (d :: p :: j) = d :: p :: m j := getitemMap_prefix D P s idx s' m h

theorem getitem_slicewise {α} [Inhabited α] (x y : NdArray α) (D P : Nat) (s : List Nat) (idx : List Idx)
    (s' : List Nat) (m : List Nat → List Nat) (hx : x.shape = D :: P :: s)
    (hm : getitemMap s idx = some (s', m)) (hy : utGetitem x idx = some y)
    (d p : Nat) (j : List Nat) (hv : ValidIdx (D :: P :: s') (d :: p :: j)) :
    y.shape = D :: P :: s' ∧ y.get (d :: p :: j) = x.get (d :: p :: m j) :=
  utGetitem_get x y D P s idx s' m hx hm hy d p j hv

theorem sum_axis_nonneg {α} [Inhabited α] [Add α] [Zero α] (x : NdArray α) (axis : Nat) :
    utSumAxis x (axis : Int) = sumAxis x (axis + 2) := utSumAxis_nonneg x axis

theorem sum_axis_neg {α} [Inhabited α] [Add α] [Zero α] (x : NdArray α) (k : Nat) (hk : 0 < k) (hk2 : k ≤ x.shape.length) :
    utSumAxis x (-(k : Int)) = sumAxis x (x.shape.length - k) := utSumAxis_neg x k hk hk2

/-- non-vacuity: `a[::-1, -1]` on a `2×3` array -/
example : (getitemMap [2, 3] [.slice none none (some (-1)), .int (-1)]).map (fun r => (r.1, r.2 [0], r.2 [1]))
    = some ([2], [1, 2], [0, 2]) := by decide

end AV.C13
