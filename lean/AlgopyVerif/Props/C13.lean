import AlgopyVerif.Proofs.Index
import AlgopyVerif.Proofs.Setitem
/-!
# C13 — shape-manipulating operations act slice-wise like NumPy, with view semantics

L1 model of NumPy's basic indexing (`Model/Index.lean`: ints, negative ints, slices with steps and
out-of-range / `None` bounds, `Ellipsis`, `newaxis`), validated against the real NumPy by the
"mini-NumPy vs NumPy" stream of the C13 run (random and, in the thorough tier, exhaustive small index
expressions).  Theorems, for every `D`, `P`, shape and index expression:

* `getitem_prefix_law`: indexing `(D,P)+shape` data with `(:, :) ++ idx` (what `UTPM.__getitem__`
  does) yields shape `(D,P)+shape'` and maps `(d, p, j) ↦ (d, p, m j)` where `(shape', m)` is the
  result of `idx` on a single coefficient slice;
* `getitem_slicewise`: hence `x[idx].data[d,p] = x.data[d,p][idx]` element by element — and, read with
  cell identifiers as elements, `x[idx]` consists of cells of `x` (a view: writing through it
  updates the parent);
* `sum_axis_nonneg`, `sum_axis_neg`: the axis arithmetic of `UTPM.sum`.

* `index_map_injective`: every basic index expression selects each cell at most once (strides are non-zero and
  never leave the axis), which makes assignment well defined;
* `setitem_slicewise`: `x[idx] = v` (UTPM `v`, NumPy-broadcast) puts `v[d, p, ·]` into the selected cells of
  coefficient slice `(d, p)` and leaves every other cell of `x` untouched;
* `setitem_constant`: `x[idx] = c` for a plain array / scalar sets the zeroth coefficient of the selected cells to
  `c` and clears all their higher coefficients.

`reshape, transpose, tile, diag, triu/tril, trace, conj/real/imag, fft/ifft, zeros/ones(-like),
symvec/vecsym` are checked slice-wise against NumPy on the implementation
(partial: no theorem; `reshape`/`transpose`/`sum(axis)` additionally against the model).  Item assignment of the
real code is compared with the model functions `utSetitem`, `utSetitemConst` on every generated case.
-/
open AV NdArray
namespace AV.C13

theorem getitem_prefix_law (D P : Nat) (s : List Nat) (idx : List Idx) (s' : List Nat) (m : List Nat → List Nat)
    (h : getitemMap s idx = some (s', m)) :
    ∃ m', getitemMap (D :: P :: s) (fullSl :: fullSl :: idx) = some (D :: P :: s', m') ∧
      ∀ d p j, m' (d :: p :: j) = d :: p :: m j := getitemMap_prefix D P s idx s' m h

theorem getitem_slicewise {α} [Inhabited α] (x y : NdArray α) (D P : Nat) (s : List Nat) (idx : List Idx)
    (s' : List Nat) (m : List Nat → List Nat) (hx : x.shape = D :: P :: s)
    (hm : getitemMap s idx = some (s', m)) (hy : utGetitem x idx = some y)
    (d p : Nat) (j : List Nat) (hv : ValidIdx (D :: P :: s') (d :: p :: j)) :
    y.shape = D :: P :: s' ∧ y.get (d :: p :: j) = x.get (d :: p :: m j) :=
  utGetitem_get x y D P s idx s' m hx hm hy d p j hv

theorem sum_axis_nonneg {α} [Inhabited α] [Add α] [Zero α] (x : NdArray α) (axis : Nat) :
    utSumAxis x (axis : Int) = sumAxis x (axis + 2) := utSumAxis_nonneg x axis

theorem sum_axis_neg {α} [Inhabited α] [Add α] [Zero α] (x : NdArray α) (k : Nat) (hk : 0 < k) (hk2 : k ≤ x.shape.length) :
    utSumAxis x (-(k : Int)) = sumAxis x (x.shape.length - k) := utSumAxis_neg x k hk hk2

theorem index_map_injective (shape : List Nat) (idx : List Idx) (s : List Nat) (m : List Nat → List Nat)
    (h : getitemMap shape idx = some (s, m)) (j j' : List Nat) (hj : ValidIdx s j) (hj' : ValidIdx s j')
    (he : m j = m j') : j = j' := getitemMap_injective shape idx s m h j j' hj hj' he

/-- `x[idx] = v`: the selected cells of every coefficient slice receive `v`, all other cells keep their value -/
theorem setitem_slicewise {α} [Inhabited α] (x v y : NdArray α) (D P : Nat) (s : List Nat) (idx : List Idx) (s' : List Nat)
    (m : List Nat → List Nat) (hx : x.shape = D :: P :: s) (hm : getitemMap s idx = some (s', m))
    (hy : utSetitem x idx v = some y) (d p : Nat) (hd : d < D) (hp : p < P) :
    (∀ j, ValidIdx s' j → ValidIdx s (m j) → y.get (d :: p :: m j) = v.get (d :: p :: bidx (v.shape.drop 2) j))
    ∧ (∀ i, ValidIdx s i → (∀ j, ValidIdx s' j → m j ≠ i) → y.get (d :: p :: i) = x.get (d :: p :: i)) :=
  ⟨fun j hj hmj => utSetitem_hit x v y D P s idx s' m hx hm hy d p j hd hp hj hmj
      (fun j' hj' he => getitemMap_injective s idx s' m hm j' j hj' hj he),
   fun i hi hmiss => utSetitem_miss x v y D P s idx s' m hx hm hy d p i hd hp hi hmiss⟩

/-- `x[idx] = c` with a plain array or scalar `c`: zeroth coefficient `c`, higher coefficients `0` -/
theorem setitem_constant {α} [Inhabited α] [Zero α] (x c y : NdArray α) (D P : Nat) (s : List Nat) (idx : List Idx)
    (s' : List Nat) (m : List Nat → List Nat) (hx : x.shape = D :: P :: s) (hm : getitemMap s idx = some (s', m))
    (hy : utSetitemConst x idx c = some y) (d p : Nat) (hd : d < D) (hp : p < P) (j : List Nat)
    (hj : ValidIdx s' j) (hmj : ValidIdx s (m j)) :
    y.get (d :: p :: m j) = if d = 0 then c.get (bidx c.shape j) else 0 :=
  utSetitemConst_hit x c y D P s idx s' m hx hm hy d p j hd hp hj hmj
    (fun j' hj' he => getitemMap_injective s idx s' m hm j' j hj' hj he)


/-- non-vacuity: `a[::-1, -1]` on a `2×3` array -/
example : (getitemMap [2, 3] [.slice none none (some (-1)), .int (-1)]).map (fun r => (r.1, r.2 [0], r.2 [1]))
    = some ([2], [1, 2], [0, 2]) := by decide

end AV.C13
