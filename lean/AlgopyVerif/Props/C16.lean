import AlgopyVerif.Proofs.NthDeriv
import AlgopyVerif.Proofs.NthPiecewise
import AlgopyVerif.Proofs.NthErf
import AlgopyVerif.Proofs.NthLegendre
import AlgopyVerif.Proofs.SpecialFns
/-!
# C16 — closed-form n-th derivatives are the true derivatives

For each function of `algopy.nthderiv`, the closed form of the model
(`Model/NthDeriv.lean`, the same definition the driver evaluates on rationals) equals the
iterated derivative, **for every order `n` and every point of the domain**:

    iteratedDeriv n f x = closedForm n x

proved from "order 0 is `f`, order `n+1` is the derivative of order `n`"
(`iteratedDeriv_of_chain`).

Proved: `exp, exp2, expm1, log, log2/log10 (any base), log1p, sqrt, square, negative,
reciprocal, sin, cos, sinh, cosh, arctanh`; `gammaln/psi/polygamma` and `hyperu` relative to
the first-order relations of their SciPy leaves (Mathlib has no polygamma / Tricomi U).
The closed forms that go through complex numbers are evaluated by the model in `Cx K` (pairs; Gaussian
rationals in the driver) and interpreted in `ℂ` for the theorems: `arctan_nth` (partial fractions over `x ∓ i`),
`arcsinh_nth`, `arcsin_nth`, `arccos_nth`, `arccosh_nth` (Legendre polynomials by Bonnet's recurrence exactly as
`eval_legendre` is modelled; the derivative identity `(1-X²)P_n' = (n+1)(X P_n - P_{n+1})` is proved from the
recurrence alone, `Proofs/NthLegendre.lean`).  `erf, erfi` (finite sums): `erf_nth`, `erfi_nth` — for the concrete functions
`c ∫₀ˣ exp(∓s²) ds` and any `c` (`c = 2/√π` is erf / erfi), through the polynomial recursion
`R₀ = 1, R_{N+1} = R_N' ∓ 2 X R_N` and its explicit coefficients (`Proofs/NthErf.lean`).  The piecewise functions away from their jumps / kinks:
`step_nth` (every function that is constant near `x`: `rint, fix, floor, ceil, trunc, sign`), with the instances
`floor_nth`, `ceil_nth`, `sign_nth`, and `absolute_nth` (`|x|`: order 1 is `sign x`, higher orders 0).
-/
open AV Set
namespace AV.C16

theorem exp_nth (n : ℕ) (x : ℝ) : iteratedDeriv n Real.exp x = dExp (Real.exp x) n := by
  have := iteratedDeriv_of_chain univ isOpen_univ (fun n y => dExp (Real.exp y) n)
    (fun n x _ => chain_exp n x) n x (mem_univ x)
  simpa [dExp] using this

theorem exp2_nth (n : ℕ) (x : ℝ) :
    iteratedDeriv n (fun y : ℝ => (2:ℝ) ^ y) x = dExp2 ((2:ℝ) ^ x) (Real.log 2) n := by
  have := iteratedDeriv_of_chain univ isOpen_univ (fun n y => dExp2 ((2:ℝ) ^ y) (Real.log 2) n)
    (fun n x _ => chain_exp2 n x) n x (mem_univ x)
  simpa [dExp2, powN] using this

theorem expm1_nth (n : ℕ) (x : ℝ) :
    iteratedDeriv n (fun y => Real.exp y - 1) x = dExpm1 (Real.exp x - 1) (Real.exp x) n := by
  have := iteratedDeriv_of_chain univ isOpen_univ (fun n y => dExpm1 (Real.exp y - 1) (Real.exp y) n)
    (fun n x _ => chain_expm1 n x) n x (mem_univ x)
  simpa [dExpm1] using this

theorem log_nth (n : ℕ) (x : ℝ) (hx : 0 < x) : iteratedDeriv n Real.log x = dLog (Real.log x) x n := by
  have := iteratedDeriv_of_chain (Ioi 0) isOpen_Ioi (fun n y => dLog (Real.log y) y n)
    (fun n x hx => chain_log n x (ne_of_gt hx)) n x hx
  simpa [dLog] using this

/-- `log2`, `log10`: any base with `lb = log b` -/
theorem logb_nth (lb : ℝ) (n : ℕ) (x : ℝ) (hx : 0 < x) :
    iteratedDeriv n (fun y => Real.log y / lb) x = dLogb (Real.log x / lb) lb x n := by
  have := iteratedDeriv_of_chain (Ioi 0) isOpen_Ioi (fun n y => dLogb (Real.log y / lb) lb y n)
    (fun n x hx => chain_logb lb n x (ne_of_gt hx)) n x hx
  simpa [dLogb] using this

theorem log1p_nth (n : ℕ) (x : ℝ) (hx : -1 < x) :
    iteratedDeriv n (fun y => Real.log (1 + y)) x = dLog1p (Real.log (1 + x)) x n := by
  have := iteratedDeriv_of_chain (Ioi (-1)) isOpen_Ioi (fun n y => dLog1p (Real.log (1 + y)) y n)
    (fun n x hx => chain_log1p n x (by have : -1 < x := hx; linarith)) n x hx
  simpa [dLog1p] using this

theorem sqrt_nth (n : ℕ) (x : ℝ) (hx : 0 < x) : iteratedDeriv n Real.sqrt x = dSqrt (Real.sqrt x) x n := by
  have := iteratedDeriv_of_chain (Ioi 0) isOpen_Ioi (fun n y => dSqrt (Real.sqrt y) y n)
    (fun n x hx => chain_sqrt n x hx) n x hx
  simpa [dSqrt] using this

theorem square_nth (n : ℕ) (x : ℝ) : iteratedDeriv n (fun y : ℝ => y * y) x = dSquare x n := by
  have := iteratedDeriv_of_chain univ isOpen_univ (fun n y => dSquare y n)
    (fun n x _ => chain_square n x) n x (mem_univ x)
  simpa [dSquare] using this

theorem negative_nth (n : ℕ) (x : ℝ) : iteratedDeriv n (fun y : ℝ => -y) x = dNegative x n := by
  have := iteratedDeriv_of_chain univ isOpen_univ (fun n y => dNegative y n)
    (fun n x _ => chain_negative n x) n x (mem_univ x)
  simpa [dNegative] using this

theorem reciprocal_nth (n : ℕ) (x : ℝ) (hx : 0 < x) :
    iteratedDeriv n (fun y : ℝ => 1 / y) x = dReciprocal x n := by
  have := iteratedDeriv_of_chain (Ioi 0) isOpen_Ioi (fun n y => dReciprocal y n)
    (fun n x hx => chain_reciprocal n x (ne_of_gt hx)) n x hx
  simpa [dReciprocal, powN, negOnePow, fact, nat] using this

theorem reciprocal_nth_neg (n : ℕ) (x : ℝ) (hx : x < 0) :
    iteratedDeriv n (fun y : ℝ => 1 / y) x = dReciprocal x n := by
  have := iteratedDeriv_of_chain (Iio 0) isOpen_Iio (fun n y => dReciprocal y n)
    (fun n x hx => chain_reciprocal n x (ne_of_lt hx)) n x hx
  simpa [dReciprocal, powN, negOnePow, fact, nat] using this

theorem sin_nth (n : ℕ) (x : ℝ) : iteratedDeriv n Real.sin x = dSin (Real.sin x) (Real.cos x) n := by
  have := iteratedDeriv_of_chain univ isOpen_univ (fun n y => dSin (Real.sin y) (Real.cos y) n)
    (fun n x _ => chain_sin n x) n x (mem_univ x)
  simpa [dSin] using this

theorem cos_nth (n : ℕ) (x : ℝ) : iteratedDeriv n Real.cos x = dCos (Real.sin x) (Real.cos x) n := by
  have := iteratedDeriv_of_chain univ isOpen_univ (fun n y => dCos (Real.sin y) (Real.cos y) n)
    (fun n x _ => chain_cos n x) n x (mem_univ x)
  simpa [dCos] using this

theorem sinh_nth (n : ℕ) (x : ℝ) : iteratedDeriv n Real.sinh x = dSinh (Real.sinh x) (Real.cosh x) n := by
  have := iteratedDeriv_of_chain univ isOpen_univ (fun n y => dSinh (Real.sinh y) (Real.cosh y) n)
    (fun n x _ => chain_sinh n x) n x (mem_univ x)
  simpa [dSinh] using this

theorem cosh_nth (n : ℕ) (x : ℝ) : iteratedDeriv n Real.cosh x = dCosh (Real.sinh x) (Real.cosh x) n := by
  have := iteratedDeriv_of_chain univ isOpen_univ (fun n y => dCosh (Real.sinh y) (Real.cosh y) n)
    (fun n x _ => chain_cosh n x) n x (mem_univ x)
  simpa [dCosh] using this

/-- `arctanh` on `(-1,1)`, for any `l` with `l' = 1/(1-x²)` there (`numpy.arctanh`) -/
theorem arctanh_nth (l : ℝ → ℝ) (hl : ∀ x, x ∈ Ioo (-1:ℝ) 1 → HasDerivAt l (1 / (1 - x ^ 2)) x)
    (n : ℕ) (x : ℝ) (hx : x ∈ Ioo (-1:ℝ) 1) : iteratedDeriv n l x = dArctanh (l x) x n := by
  have := iteratedDeriv_of_chain (Ioo (-1) 1) isOpen_Ioo (fun n y => dArctanh (l y) y n)
    (fun n x hx => chain_arctanh n x (by have := hx.2; linarith) (by have := hx.1; linarith) l (hl x hx)) n x hx
  simpa [dArctanh] using this

/-- `polygamma(m, ·)` (and `psi = polygamma 0`, `gammaln' = polygamma 0`): order `n` is the leaf
`polygamma(m+n, x)`, given `polygamma(k+1,·) = polygamma(k,·)'` on `S` -/
theorem polygamma_nth (pgf : ℕ → ℝ → ℝ) (S : Set ℝ) (hS : IsOpen S)
    (hpg : ∀ k x, x ∈ S → HasDerivAt (pgf k) (pgf (k+1) x) x) (m n : ℕ) (x : ℝ) (hx : x ∈ S) :
    iteratedDeriv n (pgf m) x = pgf (m + n) x := by
  have := iteratedDeriv_of_chain S hS (fun n y => pgf (m + n) y)
    (fun n x hx => hpg (m + n) x hx) n x hx
  simpa using this

/-- `hyperu(a, b, ·)`: order `n` is `(-1)^n (a)_n U(a+n, b+n, x)` given the contiguous relation
`∂ₓ U(a+k, b+k, x) = -(a+k) U(a+k+1, b+k+1, x)` of the leaves `u k = U(a+k, b+k, ·)` -/
theorem hyperu_nth (a : ℝ) (u : ℕ → ℝ → ℝ) (S : Set ℝ) (hS : IsOpen S)
    (hu : ∀ k x, x ∈ S → HasDerivAt (u k) (-(a + k) * u (k+1) x) x) (n : ℕ) (x : ℝ) (hx : x ∈ S) :
    iteratedDeriv n (u 0) x = negOnePow n * pochK a n * u n x := by
  have hch : ∀ n x, x ∈ S → HasDerivAt (fun y => (negOnePow n : ℝ) * pochK a n * u n y)
      ((negOnePow (n+1) : ℝ) * pochK a (n+1) * u (n+1) x) x := by
    intro n x hx
    refine ((hu n x hx).const_mul ((negOnePow n : ℝ) * pochK a n)).congr_deriv ?_
    rw [negOnePow_eq, negOnePow_eq, pochK, pow_succ]
    simp only [nat_eq']
    ring
  have := iteratedDeriv_of_chain S hS (fun n y => (negOnePow n : ℝ) * pochK a n * u n y) hch n x hx
  simpa [negOnePow, pochK] using this

/-! non-vacuity: the closed forms on concrete rationals -/
/-- **`arctan`**: every order, every point -/
theorem arctan_nth (n : ℕ) (x : ℝ) : iteratedDeriv n Real.arctan x = dArctan (Real.arctan x) x n := by
  have := iteratedDeriv_of_chain univ isOpen_univ (fun n y => dArctan (Real.arctan y) y n)
    (fun n x _ => chain_arctan n x) n x (mem_univ x)
  simpa [dArctan] using this

/-- **`arcsinh`**: every order, every point; leaf `r = 1/sqrt(1+x²)` -/
theorem arcsinh_nth (n : ℕ) (x : ℝ) :
    iteratedDeriv n Real.arsinh x = dArcsinh (Real.arsinh x) x (Real.sqrt (1 + 1 * x ^ 2))⁻¹ n := by
  have := iteratedDeriv_of_chain univ isOpen_univ (fun n y => dArcsinh (Real.arsinh y) y (rR 1 1 y) n)
    (fun n x _ => chain_arcsinh n x) n x (mem_univ x)
  simpa [dArcsinh, rR] using this

/-- **`arcsin`** on `(-1, 1)`; leaf `r = 1/sqrt(1-x²)` -/
theorem arcsin_nth (n : ℕ) (x : ℝ) (hx : x ∈ Ioo (-1:ℝ) 1) :
    iteratedDeriv n Real.arcsin x = dArcsin (Real.arcsin x) x (Real.sqrt (1 + (-1) * x ^ 2))⁻¹ n := by
  have := iteratedDeriv_of_chain (Ioo (-1:ℝ) 1) isOpen_Ioo (fun n y => dArcsin (Real.arcsin y) y (rR 1 (-1) y) n)
    (fun n x hx => chain_arcsin n x hx.1 hx.2) n x hx
  simpa [dArcsin, rR] using this

/-- **`arccos`** on `(-1, 1)`: order 0 is `arccos x`, higher orders are the negated `arcsin` closed forms -/
theorem arccos_nth (n : ℕ) (x : ℝ) (hx : x ∈ Ioo (-1:ℝ) 1) :
    iteratedDeriv n Real.arccos x
      = if n = 0 then Real.arccos x else -dArcsin 0 x (Real.sqrt (1 + (-1) * x ^ 2))⁻¹ n := by
  have := iteratedDeriv_of_chain (Ioo (-1:ℝ) 1) isOpen_Ioo
    (fun n y => if n = 0 then Real.arccos y else -dArcsin 0 y (rR 1 (-1) y) n)
    (fun n x hx => by
      have := chain_arccos n x hx.1 hx.2
      simpa using this) n x hx
  simpa [rR] using this

/-- **`arccosh`** on `(1, ∞)`; leaf `r = 1/sqrt(x²-1)` -/
theorem arccosh_nth (n : ℕ) (x : ℝ) (hx : 1 < x) :
    iteratedDeriv n Real.arcosh x = dArccosh (Real.arcosh x) x (Real.sqrt (-1 + 1 * x ^ 2))⁻¹ n := by
  have := iteratedDeriv_of_chain (Ioi (1:ℝ)) isOpen_Ioi (fun n y => dArccosh (Real.arcosh y) y (rR (-1) 1 y) n)
    (fun n x hx => chain_arccosh n x hx) n x hx
  simpa [dArccosh, rR] using this

example : dArctan (K := ℚ) 0 1 3 = 1/2 := by decide +kernel

/-- **`erf`**: every order, every point; `erfC c = fun y => c ∫₀ʸ exp(-s²) ds` -/
theorem erf_nth (c : ℝ) (n : ℕ) (x : ℝ) :
    iteratedDeriv n (erfC c) x = dErf (erfC c x) (c * Real.exp (-(x * x))) x n := by
  have := iteratedDeriv_erf_model true c (erfC c) (fun y => by simpa using erfC_hasDerivAt c y) n x
  simpa [dErf] using this

/-- **`erfi`**: every order, every point; `erfiC c = fun y => c ∫₀ʸ exp(s²) ds` -/
theorem erfi_nth (c : ℝ) (n : ℕ) (x : ℝ) :
    iteratedDeriv n (erfiC c) x = dErfi (erfiC c x) (c * Real.exp (x * x)) x n := by
  have := iteratedDeriv_erf_model false c (erfiC c) (fun y => by simpa using erfiC_hasDerivAt c y) n x
  simpa [dErfi] using this

/-- any other antiderivative of `c exp(∓y²)` has the same closed form (the statement does not depend on
how `erf` is normalised at 0) -/
theorem erf_like_nth (alt : Bool) (c : ℝ) (E : ℝ → ℝ)
    (hE : ∀ y, HasDerivAt E (c * Real.exp ((if alt then -1 else 1) * (y * y))) y) (n : ℕ) (x : ℝ) :
    iteratedDeriv n E x
      = if n = 0 then E x else (c * Real.exp ((if alt then -1 else 1) * (x * x))) * erfPoly alt x n :=
  iteratedDeriv_erf_model alt c E hE n x

example : dErf (0:ℚ) 1 (1/2) 3 = -1 := by decide +kernel
example : dErfi (0:ℚ) 1 2 4 = 88 := by decide +kernel
example : dLog (0:ℚ) 2 3 = 1/4 := by decide +kernel
example : dReciprocal (2:ℚ) 2 = 1/4 := by decide +kernel
example : dSin (3/5 : ℚ) (4/5) 6 = -3/5 := by decide +kernel

/-! ## piecewise-constant and piecewise-linear functions away from jumps and kinks -/

/-- every function constant in a neighbourhood of `x` (`rint, fix, floor, ceil, trunc, sign` away from their jumps):
order 0 is the value, all higher orders are 0 -/
theorem step_nth (f : ℝ → ℝ) (x : ℝ) (h : f =ᶠ[nhds x] fun _ => f x) (n : ℕ) :
    iteratedDeriv n f x = dStep (f x) n := iteratedDeriv_of_locally_const f x h n

theorem floor_nth (x : ℝ) (hx : ∀ k : ℤ, x ≠ k) (n : ℕ) :
    iteratedDeriv n (fun y : ℝ => (⌊y⌋ : ℝ)) x = dStep (⌊x⌋ : ℝ) n :=
  iteratedDeriv_of_locally_const _ x (floor_locally_const x hx) n

theorem ceil_nth (x : ℝ) (hx : ∀ k : ℤ, x ≠ k) (n : ℕ) :
    iteratedDeriv n (fun y : ℝ => (⌈y⌉ : ℝ)) x = dStep (⌈x⌉ : ℝ) n :=
  iteratedDeriv_of_locally_const _ x (ceil_locally_const x hx) n

theorem sign_nth (x : ℝ) (hx : x ≠ 0) (n : ℕ) :
    iteratedDeriv n (fun y : ℝ => (SignType.sign y : ℝ)) x = dStep (SignType.sign x : ℝ) n :=
  iteratedDeriv_of_locally_const _ x (sign_locally_const x hx) n

theorem absolute_nth (x : ℝ) (hx : x ≠ 0) (n : ℕ) :
    iteratedDeriv n (fun y : ℝ => |y|) x = dAbsolute |x| (SignType.sign x : ℝ) n := by
  rw [iteratedDeriv_of_locally_affine _ _ 0 x (abs_locally_affine x hx) n]
  match n with
  | 0 => rfl
  | 1 => rfl
  | n + 2 => rfl

/-- `clip(a_min, a_max, ·)` away from the two kinks: order 0 is the clipped value, order 1 is the indicator of
the interval (`nthderiv.clip`: `(x >= a_min) * (x <= a_max)`), higher orders vanish -/
theorem clip_nth (lo hi x : ℝ) (hlh : lo ≤ hi) (h1 : x ≠ lo) (h2 : x ≠ hi) (n : ℕ) :
    iteratedDeriv n (fun y : ℝ => min (max y lo) hi) x
      = dClip (min (max x lo) hi) (if lo ≤ x ∧ x ≤ hi then 1 else 0) n := by
  rcases lt_or_gt_of_ne h1 with hlo | hlo
  · rw [iteratedDeriv_of_locally_const _ x (clip_locally_const_lo lo hi x hlo) n]
    have : ¬ (lo ≤ x ∧ x ≤ hi) := fun h => absurd h.1 (not_le.mpr hlo)
    rw [if_neg this]
    match n with
    | 0 => rfl
    | 1 => rfl
    | n + 2 => rfl
  · rcases lt_or_gt_of_ne h2 with hhi | hhi
    · rw [iteratedDeriv_of_locally_affine _ 1 0 x (clip_locally_id lo hi x hlo hhi) n]
      rw [if_pos ⟨le_of_lt hlo, le_of_lt hhi⟩]
      match n with
      | 0 => rfl
      | 1 => rfl
      | n + 2 => rfl
    · rw [iteratedDeriv_of_locally_const _ x (clip_locally_const_hi lo hi x hlh hhi) n]
      have : ¬ (lo ≤ x ∧ x ≤ hi) := fun h => absurd h.2 (not_le.mpr hhi)
      rw [if_neg this]
      match n with
      | 0 => rfl
      | 1 => rfl
      | n + 2 => rfl

/-- `rint` away from the half-integers (there every round-to-nearest rule is `⌊y + 1/2⌋`) -/
theorem rint_nth (x : ℝ) (hx : ∀ k : ℤ, x + 1 / 2 ≠ k) (n : ℕ) :
    iteratedDeriv n (fun y : ℝ => (⌊y + 1 / 2⌋ : ℝ)) x = dStep (⌊x + 1 / 2⌋ : ℝ) n :=
  iteratedDeriv_of_locally_const _ x (round_locally_const x hx) n

end AV.C16
