import AlgopyVerif.Proofs.Prefix
import AlgopyVerif.Proofs.SpecialFns
import AlgopyVerif.Proofs.LinalgPrefix
import AlgopyVerif.Proofs.FactorPrefix
import AlgopyVerif.Proofs.TapeNatural
import Mathlib.RingTheory.Polynomial.Quotient
/-!
# C12 — low-order coefficients do not depend on the truncation degree

For every L0 kernel `F` (the model of the corresponding `algorithms.py` recurrence),
every input series `x`, every `D' ≤ D = x.length`:

    (F x).take D' = F (x.take D')

i.e. output coefficient `d` depends only on input coefficients of order `≤ d`; with
`D' = 1` the result is the plain function value (the leaf).  The statement is over an
arbitrary field `K` (so it covers real and complex coefficients).  UTPM-level functions
are these kernels mapped over `(p, idx)` (`Model/Utpm.lean: mapS1`), the tie of which to
the code is the C12 correspondence run.

The two fold-based kernels, `slowGenericS` (`_eval_slow_generic`: gammaln, psi, polygamma, hyperu)
and `dawsnS` (`_dawsn` through the generic ODE solver), are proved over ℝ, for every list of
derivative leaves resp. every leaf value, as a corollary of the analytic layer of C01: the output is
the jet of a function that does not depend on `D` (`slow_generic_prefix`, `dawsn_prefix`).
The matrix kernels `dot`, `inv`, `solve` over any ring (`dot_matrix_prefix`, `inv_matrix_prefix`,
`solve_matrix_prefix`).  Factorizations (`qr_prefix`, `cholesky_prefix`, `lu_prefix`, `eigh_prefix`): two runs whose inputs agree up to
order `m`, with the same zeroth-order leaves, both obeying the order-`d` step equations (the hypotheses tied to
the code in C08), agree up to order `m`.  **Reverse sweep** (`reverse_sweep_truncation`): the truncation `S[t]/(t^D) → S[t]/(t^D')` is a ring
homomorphism (`truncHom`), and every ring homomorphism commutes with the reverse sweep of tapes whose computations commute with it
(ring operations do for free, `ring_ops_truncation_compatible`; a series kernel does by its `*_prefix` theorem): the first `D'`
coefficients of every adjoint of a sweep with `D` coefficients are the adjoints of the sweep with `D'` coefficients.
Not proved: the two fold-based kernels over other fields; svd, eig.
-/
namespace AV.C12
variable {K : Type} [Field K]

theorem add_prefix (x y : List K) (m : Nat) (h : m ≤ x.length) :
    (addS x y).take m = addS (x.take m) (y.take m) := addS_take x y m h

theorem sub_prefix (x y : List K) (m : Nat) (h : m ≤ x.length) :
    (subS x y).take m = subS (x.take m) (y.take m) := subS_take x y m h

theorem mul_prefix (x y : List K) (m : Nat) (h : m ≤ x.length) :
    (mulS x y).take m = mulS (x.take m) (y.take m) := mulS_take x y m h

theorem div_prefix (x y : List K) (m : Nat) (h : m ≤ x.length) :
    (divS x y).take m = divS (x.take m) (y.take m) := divS_take x y m h

theorem neg_prefix (x : List K) (m : Nat) : (negS x).take m = negS (x.take m) := negS_take x m

theorem reciprocal_prefix (y : List K) (m : Nat) (h : m ≤ y.length) :
    (recipS y).take m = recipS (y.take m) := recipS_take y m h

theorem square_prefix (x : List K) (m : Nat) (h : m ≤ x.length) :
    (squareS x).take m = squareS (x.take m) := squareS_take x m h

theorem sqrt_prefix (y0 : K) (x : List K) (m : Nat) (h : m ≤ x.length) :
    (sqrtS y0 x).take m = sqrtS y0 (x.take m) := sqrtS_take y0 x m h

theorem exp_prefix (y0 : K) (x : List K) (m : Nat) (h : m ≤ x.length) :
    (expS y0 x).take m = expS y0 (x.take m) := expS_take y0 x m h

theorem log_prefix (y0 : K) (x : List K) (m : Nat) (h : m ≤ x.length) :
    (logS y0 x).take m = logS y0 (x.take m) := logS_take y0 x m h

theorem pow_real_prefix (r y0 : K) (x : List K) (m : Nat) (h : m ≤ x.length) :
    (powRealS r y0 x).take m = powRealS r y0 (x.take m) := powRealS_take r y0 x m h

theorem pow_nat_prefix (r : Nat) (x : List K) (m : Nat) (h : m ≤ x.length) :
    (powNatS r x).take m = powNatS r (x.take m) := powNatS_take r x m h

theorem sincos_prefix (s0 c0 : K) (x : List K) (m : Nat) (h : m ≤ x.length) :
    ((sincosS s0 c0 x).1.take m, (sincosS s0 c0 x).2.take m) = sincosS s0 c0 (x.take m) :=
  pair_take (sincosStep s0 c0) x m h (fun acc ha => sincosStep_take s0 c0 x m acc ha)

theorem sinhcosh_prefix (s0 c0 : K) (x : List K) (m : Nat) (h : m ≤ x.length) :
    ((sinhcoshS s0 c0 x).1.take m, (sinhcoshS s0 c0 x).2.take m) = sinhcoshS s0 c0 (x.take m) :=
  pair_take (sinhcoshStep s0 c0) x m h (fun acc ha => sinhcoshStep_take s0 c0 x m acc ha)

theorem tansec2_prefix (y0 z0 : K) (x : List K) (m : Nat) (h : m ≤ x.length) :
    ((tansec2S y0 z0 x).1.take m, (tansec2S y0 z0 x).2.take m) = tansec2S y0 z0 (x.take m) :=
  pair_take (tansec2Step y0 z0) x m h (fun acc ha => tansec2Step_take y0 z0 x m acc ha)

theorem tanhsech2_prefix (y0 z0 : K) (x : List K) (m : Nat) (h : m ≤ x.length) :
    ((tanhsech2S y0 z0 x).1.take m, (tanhsech2S y0 z0 x).2.take m) = tanhsech2S y0 z0 (x.take m) :=
  pair_take (tanhsech2Step y0 z0) x m h (fun acc ha => tanhsech2Step_take y0 z0 x m acc ha)

/-- covers `_arcsin` and `_arccos` (same recurrence, different leaves) -/
theorem arcsin_prefix (y0 z0 : K) (x : List K) (m : Nat) (h : m ≤ x.length) :
    ((arcsinS y0 z0 x).1.take m, (arcsinS y0 z0 x).2.take m) = arcsinS y0 z0 (x.take m) :=
  pair_take (arcsinStep y0 z0) x m h (fun acc ha => arcsinStep_take y0 z0 x m acc ha)

theorem arctan_prefix (y0 : K) (x : List K) (m : Nat) (h : m ≤ x.length) :
    ((arctanS y0 x).1.take m, (arctanS y0 x).2.take m) = arctanS y0 (x.take m) :=
  pair_take (arctanStep y0) x m h (fun acc ha => arctanStep_take y0 x m acc ha)

theorem black_white_prefix (f0 : K) (fp x : List K) (m : Nat) (h : m ≤ x.length) :
    (blackWhiteS f0 fp x).take m = blackWhiteS f0 (fp.take m) (x.take m) :=
  blackWhiteS_take f0 fp x m h

theorem expm1_prefix (e0 em0 : K) (x : List K) (m : Nat) (h : m ≤ x.length) :
    (expm1S e0 em0 x).take m = expm1S e0 em0 (x.take m) := by
  unfold expm1S
  rw [blackWhiteS_take _ _ _ _ h, expS_take _ _ _ h]

theorem log1p_prefix (l0 : K) (x : List K) (m : Nat) (h : m ≤ x.length) :
    (log1pS l0 x).take m = log1pS l0 (x.take m) := by
  unfold log1pS
  rw [blackWhiteS_take _ _ _ _ h, recipS_take _ _ (by simpa [plusConstS] using h),
    plusConstS_take _ _ _ h]

theorem logit_prefix (l0 : K) (x : List K) (m : Nat) (h : m ≤ x.length) :
    (logitS l0 x).take m = logitS l0 (x.take m) := by
  unfold logitS
  rw [blackWhiteS_take _ _ _ _ h, recipS_take _ _ (by simpa [subS] using h),
    subS_take _ _ _ h, squareS_take _ _ h]

theorem expit_prefix (e0 f0 : K) (x : List K) (m : Nat) (h : m ≤ x.length) :
    (expitS e0 f0 x).take m = expitS e0 f0 (x.take m) := by
  unfold expitS
  simp only
  have hl : (plusConstS (expS e0 x) 1).length = x.length := by
    simp [plusConstS, expS, build_length]
  have hr : (recipS (plusConstS (expS e0 x) 1)).length = x.length := by
    simp [recipS, build_length, hl]
  rw [blackWhiteS_take _ _ _ _ h, subS_take _ _ _ (by rw [hr]; exact h),
    squareS_take _ _ (by rw [hr]; exact h), recipS_take _ _ (by rw [hl]; exact h),
    plusConstS_take _ _ _ (by simpa [expS, build_length] using h), expS_take _ _ _ h]

theorem erf_prefix (c e0 f0 : K) (x : List K) (m : Nat) (h : m ≤ x.length) :
    (erfS c e0 f0 x).take m = erfS c e0 f0 (x.take m) := by
  unfold erfS
  rw [blackWhiteS_take _ _ _ _ h, scaleS_take, expS_take _ _ _ (by simpa [negS, squareS] using h),
    negS_take, squareS_take _ _ h]

theorem erfi_prefix (c e0 f0 : K) (x : List K) (m : Nat) (h : m ≤ x.length) :
    (erfiS c e0 f0 x).take m = erfiS c e0 f0 (x.take m) := by
  unfold erfiS
  rw [blackWhiteS_take _ _ _ _ h, scaleS_take, expS_take _ _ _ (by simpa [squareS] using h),
    squareS_take _ _ h]

/-- `_eval_slow_generic` over ℝ: for every list of derivative leaves, the first `D'` coefficients do
not depend on `D` -/
theorem slow_generic_prefix (derivs x : List ℝ) (m : Nat) (hm : m ≤ x.length) (d : Nat) (hd : d < m) :
    co (slowGenericS derivs (x.take m)) d = co (slowGenericS derivs x) d :=
  slowGenericS_take_co derivs x m hm d hd

/-- `_dawsn` over ℝ, for every leaf value -/
theorem dawsn_prefix (v0 : ℝ) (x : List ℝ) (m : Nat) (hm : m ≤ x.length) (d : Nat) (hd : d < m) :
    co (dawsnS v0 (x.take m)) d = co (dawsnS v0 x) d :=
  dawsnS_take_co v0 x m hm d hd

/-! ### matrix kernels over any (non-commutative) ring -/
theorem dot_matrix_prefix {R : Type} [Ring R] (x y : List R) (m : Nat) (h : m ≤ x.length) :
    (dotM x y).take m = dotM (x.take m) (y.take m) := dotM_take x y m h

theorem inv_matrix_prefix {R : Type} [Ring R] (x : List R) (y0 : R) (m : Nat) (h : m ≤ x.length) :
    (invM x y0).take m = invM (x.take m) y0 := invM_take x y0 m h

theorem solve_matrix_prefix {R : Type} [Ring R] (a : List R) (a0inv : R) (b : List R) (m : Nat) (h : m ≤ b.length) :
    (solveM a a0inv b).take m = solveM (a.take m) a0inv (b.take m) := solveM_take a a0inv b m h

/-! ### factorizations: the steps determine order `d` from input orders `≤ d` -/
section factor
open AV.Factor
variable {n : Type} [Fintype n] [DecidableEq n]

theorem qr_prefix (lt : n → n → Prop) [DecidableRel lt] (A A' Q Q' R R' : ℕ → Matrix n n K) (Rinv : Matrix n n K)
    (m : ℕ) (hA : ∀ d, d ≤ m → A d = A' d) (hQ0 : Q 0 = Q' 0) (hR0 : R 0 = R' 0)
    (st : ∀ d, 1 ≤ d → d ≤ m → QRStep lt A Q R Rinv d) (st' : ∀ d, 1 ≤ d → d ≤ m → QRStep lt A' Q' R' Rinv d) :
    ∀ d, d ≤ m → Q d = Q' d ∧ R d = R' d := qr_determined lt A A' Q Q' R R' Rinv m hA hQ0 hR0 st st'

theorem cholesky_prefix (lt : n → n → Prop) [DecidableRel lt] (A A' L L' : ℕ → Matrix n n K) (L0inv : Matrix n n K)
    (m : ℕ) (hA : ∀ d, d ≤ m → A d = A' d) (hL0 : L 0 = L' 0)
    (st : ∀ d, 1 ≤ d → d ≤ m → CholStep lt A L L0inv d) (st' : ∀ d, 1 ≤ d → d ≤ m → CholStep lt A' L' L0inv d) :
    ∀ d, d ≤ m → L d = L' d := chol_determined lt A A' L L' L0inv m hA hL0 st st'

theorem lu_prefix (lt : n → n → Prop) [DecidableRel lt] (B B' L L' U U' : ℕ → Matrix n n K)
    (L0inv U0inv : Matrix n n K) (m : ℕ) (hB : ∀ d, d ≤ m → B d = B' d) (hL0 : L 0 = L' 0) (hU0 : U 0 = U' 0)
    (st : ∀ d, 1 ≤ d → d ≤ m → LUStep lt B L U L0inv U0inv d)
    (st' : ∀ d, 1 ≤ d → d ≤ m → LUStep lt B' L' U' L0inv U0inv d) :
    ∀ d, d ≤ m → L d = L' d ∧ U d = U' d := lu_determined lt B B' L L' U U' L0inv U0inv m hB hL0 hU0 st st'

theorem eigh_prefix (same : n → n → Prop) [DecidableRel same] (A A' Q Q' L L' : ℕ → Matrix n n K) (l : n → K)
    (Hm : Matrix n n K) (m : ℕ) (hA : ∀ d, d ≤ m → A d = A' d) (hQ0 : Q 0 = Q' 0) (hL0 : L 0 = L' 0)
    (st : ∀ d, 1 ≤ d → d ≤ m → Eigh1Step same A Q L l Hm d)
    (st' : ∀ d, 1 ≤ d → d ≤ m → Eigh1Step same A' Q' L' l Hm d) :
    ∀ d, d ≤ m → Q d = Q' d ∧ L d = L' d := eigh1_determined same A A' Q Q' L L' l Hm m hA hQ0 hL0 st st'
end factor

/-- `D = 1` reproduces the plain function value (the leaf) -/
theorem exp_D1 (y0 x0 : K) : expS y0 [x0] = [y0] := by
  simp [expS, build, expStep]

theorem sqrt_D1 (y0 x0 : K) : sqrtS y0 [x0] = [y0] := by
  simp [sqrtS, build, sqrtStep]

theorem sincos_D1 (s0 c0 x0 : K) : sincosS s0 c0 [x0] = ([s0], [c0]) := by
  simp [sincosS, build, sincosStep]

/-- non-vacuity: a concrete series of length 4 truncated to 2 -/
example : (mulS [(1:ℚ), 2, 3, 4] [5, 6, 7, 8]).take 2 = mulS [1, 2] [5, 6] :=
  mul_prefix _ _ 2 (by decide)


section
open AV.Tape Polynomial
variable {S : Type} [CommRing S]

/-- truncation `S[t]/(t^D) → S[t]/(t^D')` for `D' ≤ D`, a ring homomorphism -/
noncomputable def truncHom (D D' : Nat) (h : D' ≤ D) :
    (S[X] ⧸ Ideal.span {(X : S[X]) ^ D}) →+* (S[X] ⧸ Ideal.span {(X : S[X]) ^ D'}) :=
  Ideal.Quotient.factor (Ideal.span_singleton_le_span_singleton.mpr (pow_dvd_pow X h))

/-- truncation of the class of a polynomial is the class of the polynomial -/
theorem truncHom_mk (D D' : Nat) (h : D' ≤ D) (f : S[X]) :
    truncHom D D' h (Ideal.Quotient.mk _ f) = Ideal.Quotient.mk _ f := by
  unfold truncHom; simp

/-- **the reverse sweep commutes with every ring homomorphism** `φ` (tapes whose computations commute with `φ`) -/
theorem reverse_sweep_ring_hom {A B : Type} [CommRing A] [CommRing B] (φ : A →+* B) (t : List (Instr A)) (t' : List (Instr B))
    (hc : List.Forall₂ (Instr.Compat φ) t t') (h bar : Heap A) (c : Nat) :
    φ (rev t h bar c) = rev t' (fun i => φ (h i)) (fun i => φ (bar i)) c :=
  congrFun (rev_natural φ (map_add φ) (map_zero φ) t t' hc h bar) c

/-- **truncation**: the adjoints of a sweep with `D` coefficients, truncated to `D'` coefficients, are the adjoints of the
sweep of the truncated values and seeds -/
theorem reverse_sweep_truncation (D D' : Nat) (hD : D' ≤ D)
    (t : List (Instr (S[X] ⧸ Ideal.span {(X : S[X]) ^ D}))) (t' : List (Instr (S[X] ⧸ Ideal.span {(X : S[X]) ^ D'})))
    (hc : List.Forall₂ (Instr.Compat (truncHom D D' hD)) t t') (h bar : Heap (S[X] ⧸ Ideal.span {(X : S[X]) ^ D})) (c : Nat) :
    truncHom D D' hD (rev t h bar c) = rev t' (fun i => truncHom D D' hD (h i)) (fun i => truncHom D D' hD (bar i)) c :=
  reverse_sweep_ring_hom (truncHom D D' hD) t t' hc h bar c

/-- ring operations commute with truncation (so every polynomial program satisfies the hypothesis) -/
theorem ring_ops_truncation_compatible (D D' : Nat) (hD : D' ≤ D) (dst a b : Nat) :
    Comp.Compat (truncHom (S := S) D D' hD) (addComp dst a b) (addComp dst a b)
    ∧ Comp.Compat (truncHom (S := S) D D' hD) (subComp dst a b) (subComp dst a b)
    ∧ Comp.Compat (truncHom (S := S) D D' hD) (mulComp dst a b) (mulComp dst a b) :=
  ⟨addComp_compat _ dst a b, subComp_compat _ dst a b, mulComp_compat _ dst a b⟩

/-- non-vacuity: `c2 := c0 * c1; c0 := c2` with 3 coefficients is compatible with itself with 2 coefficients -/
example : List.Forall₂ (Instr.Compat (truncHom (S := ℤ) 3 2 (by decide)))
    [.comp (mulComp 2 0 1), .write 0 2] [.comp (mulComp 2 0 1), .write 0 2] :=
  .cons (.comp _ _ (mulComp_compat _ 2 0 1)) (.cons (.write 0 2) .nil)
end

end AV.C12
