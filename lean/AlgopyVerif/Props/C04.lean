import AlgopyVerif.Proofs.Tape
/-!
# C04 — graph derivative drivers return the derivatives at the requested point

The drivers of `tracer.py:191-612` are `seed x → pushforward → seed ybar → pullback → slice xbar`.
In the cell-level model (`Proofs/Tape.lean`), with `A = R` (`D = 1`) or `A = R[t]/(t²)` (`D = 2`):

* `vec_jac_spec` (and `gradient_spec`, `jacobian` row by row): seeding the adjoint of the output
  cells with `w` and sweeping back gives the linear functional `dx ↦ ⟨w, F'(x) dx⟩`, i.e.
  `xbar = wᵀ J(x)`, at the point `x` held by the heap — whatever point, kind or degree the graph was
  *recorded* with (the tape is the program, the heap is the evaluation point);
* `jac_vec` is the tangent sweep itself.

Second-order drivers (`hessian, hess_vec, vec_hess, vec_hess_vec`) and `jacobian(UTPM)` use the same
identity over `A = R[t]/(t^D)`: the order-1 coefficient of `xbar` under first-order seeding.  Their
index arithmetic (`init_jacobian` seeding, `(D, M·P)` replication and reshape) is checked on the
implementation against forward-mode derivatives and exact analytic derivatives of polynomial
programs (C04 run) — partial: no theorem for the slicing.
-/
open AV.Tape
namespace AV.C04
variable {A : Type} [CommRing A]

/-- indicator seed of one output cell -/
def unitSeed (out : Nat) : Heap A := fun i => if i = out then 1 else 0

theorem pair_unitSeed (n out : Nat) (hout : out < n) (v : Heap A) : pair n (unitSeed out) v = v out := by
  unfold pair unitSeed
  rw [Finset.sum_eq_single out]
  · simp
  · intro b _ hb; simp [hb]
  · intro h; exact absurd (Finset.mem_range.mpr hout) h

/-- `gradient` / one row of `jacobian`: the sweep seeded with the output cell returns the
derivative functional of that output at the evaluation point -/
theorem gradient_spec (n out : Nat) (hout : out < n) (tape : List (Instr A)) (h dh : Heap A)
    (hw : WF n tape h dh) :
    pair n (rev tape h (unitSeed out)) dh = tan tape h dh out := by
  rw [tape_adjoint n tape h dh _ hw, pair_unitSeed n out hout]

/-- `vec_jac(w, x)`: any weight vector on the outputs -/
theorem vec_jac_spec (n : Nat) (tape : List (Instr A)) (h dh w : Heap A) (hw : WF n tape h dh) :
    pair n (rev tape h w) dh = pair n w (tan tape h dh) := tape_adjoint n tape h dh w hw

end AV.C04
