import AlgopyVerif.Proofs.Tape
import AlgopyVerif.Proofs.LineDeriv
import AlgopyVerif.Proofs.Jet
import AlgopyVerif.Proofs.TapeNatural
/-!
# C04 — graph derivative drivers return the derivatives at the requested point

The drivers of `tracer.py:191-612` are `seed x → pushforward → seed ybar → pullback → slice xbar`.
In the cell-level model (`Proofs/Tape.lean`), with `A = R` (`D = 1`) or `A = R[t]/(t²)` (`D = 2`):

* `vec_jac_spec` (and `gradient_spec`, `jacobian` row by row): seeding the adjoint of the output
  cells with `w` and sweeping back gives the linear functional `dx ↦ ⟨w, F'(x) dx⟩`, i.e.
  `xbar = wᵀ J(x)`, at the point `x` held by the heap — whatever point, kind or degree the graph was
  *recorded* with (the tape is the program, the heap is the evaluation point);
* `jac_vec` is the tangent sweep itself.

Second-order drivers (`hessian, hess_vec, vec_hess, vec_hess_vec`) and `jacobian(UTPM)` use the same
identity over `A = R[t]/(t^D)`: the order-1 coefficient of `xbar` under first-order seeding.  Their
index arithmetic (`init_jacobian` seeding, `(D, M·P)` replication and reshape) is checked on the
implementation against forward-mode derivatives and exact analytic derivatives of polynomial
programs (C04 run).  What the order-1 coefficient *is* is a theorem at program level
(`second_order_driver_coefficient`, `second_order_from_jet`): for every `F : ℝᴺ → ℝ` that is `C²` at `x`, the first
Taylor coefficient of the gradient entry `t ↦ ∂F/∂x_j (x + t v)` is `Σ_i ∂²F/∂x_j∂x_i · v_i` — with `v = e_p` the
Hessian row (`hessian`), with general `v` the Hessian-vector product (`hess_vec`, and `vec_hess` by symmetry of
the Hessian); the order-0 coefficient is the gradient entry itself.  The sweep over `A = ℝ[t]/(t²)` returns the
jet of the gradient by `vec_jac_spec` over `A` and the `JetOf` closure of C01.  Partial: no theorem for the
`(D, M·P)` replication / reshape index arithmetic of `jacobian`, `vec_hess_vec`.
-/
open AV.Tape
namespace AV.C04
variable {A : Type} [CommRing A]

/-- indicator seed of one output cell -/
def unitSeed (out : Nat) : Heap A := fun i => if i = out then 1 else 0

theorem pair_unitSeed (n out : Nat) (hout : out < n) (v : Heap A) : pair n (unitSeed out) v = v out := by
  unfold pair unitSeed
  rw [Finset.sum_eq_single out]
  · simp
  · intro b _ hb; simp [hb]
  · intro h; exact absurd (Finset.mem_range.mpr hout) h

/-- `gradient` / one row of `jacobian`: the sweep seeded with the output cell returns the
derivative functional of that output at the evaluation point -/
theorem gradient_spec (n out : Nat) (hout : out < n) (tape : List (Instr A)) (h dh : Heap A)
    (hw : WF n tape h dh) :
    pair n (rev tape h (unitSeed out)) dh = tan tape h dh out := by
  rw [tape_adjoint n tape h dh _ hw, pair_unitSeed n out hout]

/-- `vec_jac(w, x)`: any weight vector on the outputs -/
theorem vec_jac_spec (n : Nat) (tape : List (Instr A)) (h dh w : Heap A) (hw : WF n tape h dh) :
    pair n (rev tape h w) dh = pair n w (tan tape h dh) := tape_adjoint n tape h dh w hw

/-! ## `jacobian(x)` with a Taylor-polynomial argument: the `(D, M·P)` replicated layout

`CGraph.jacobian` (tracer.py:335-347) evaluates the program on `M·P` directions, direction `q = p·M + m` holding the input of
direction `p = q / M`, and seeds output component `m = q % M` of direction `q` with 1.  Over the ring `Fin (M·P) → S`
(`S = ℝ[t]/(t^D)`): direction `q` of the adjoints of this one sweep is the adjoint of the sweep of input direction `q / M` alone
seeded with the output cell `q % M` — i.e. (by `gradient_spec`) row `q % M` of the Jacobian along the curve of direction `q / M`. -/
section jac
variable {S : Type} [CommRing S]

/-- the replicated input heap: direction `q` holds direction `q / M` of `x` -/
def repHeap (M P : Nat) (x : Heap (Fin P → S)) (hP : 0 < P) : Heap (Fin (P * M) → S) :=
  fun i q => x i ⟨q.val / M % P, Nat.mod_lt _ hP⟩

/-- the seed: output cell `outs m` is seeded with 1 in the directions `q` with `q % M = m` -/
def repSeed (M P : Nat) (outs : Nat → Nat) : Heap (Fin (P * M) → S) :=
  fun c q => if c = outs (q.val % M) then 1 else 0

theorem jacobian_replicated_layout (M P : Nat) (hP : 0 < P) (outs : Nat → Nat) (x : Heap (Fin P → S))
    (t : List (Instr (Fin (P * M) → S))) (t' : List (Instr S)) (q : Fin (P * M))
    (hc : List.Forall₂ (Instr.Compat (fun y : Fin (P * M) → S => y q)) t t') (c : Nat) :
    (rev t (repHeap M P x hP) (repSeed M P outs) c) q
      = rev t' (fun i => x i ⟨q.val / M % P, Nat.mod_lt _ hP⟩) (fun i => if i = outs (q.val % M) then 1 else 0) c :=
  congrFun (rev_natural (fun y : Fin (P * M) → S => y q) (fun _ _ => rfl) rfl t t' hc _ _) c

/-- for `q = p·M + m` with `m < M` the direction is `p` and the seeded output is `m` -/
theorem replicated_index (M p m : Nat) (hm : m < M) : (p * M + m) / M = p ∧ (p * M + m) % M = m := by
  constructor
  · rw [Nat.add_comm, Nat.add_mul_div_right _ _ (Nat.lt_of_le_of_lt (Nat.zero_le m) hm), Nat.div_eq_of_lt hm, Nat.zero_add]
  · rw [Nat.add_comm, Nat.add_mul_mod_self_right, Nat.mod_eq_of_lt hm]
end jac

/-! ## second-order drivers: the order-1 coefficient of the gradient along `x + t v` -/
section second
variable {N : ℕ}

/-- `hessian` (`v = e_p`), `hess_vec`, `vec_hess`: `[t¹] ∂F/∂x_j (x + t v) = (∇²F(x) v)_j` -/
theorem second_order_driver_coefficient (F : (Fin N → ℝ) → ℝ) (x v : Fin N → ℝ) (hF : ContDiffAt ℝ 2 F x) (j : Fin N) :
    tc (fun t => gradAt F (line x v t) j) 1 = ∑ i, hessAt F x j i * v i := tc_grad_line_one F x v hF j

/-- Hessian row: seeding direction `e_p` returns `∂²F/∂x_j∂x_p` -/
theorem hessian_driver_entry (F : (Fin N → ℝ) → ℝ) (x : Fin N → ℝ) (hF : ContDiffAt ℝ 2 F x) (p j : Fin N) :
    tc (fun t => gradAt F (line x (Pi.single p 1) t) j) 1 = hessAt F x j p := by
  rw [tc_grad_line_one F x _ hF j, Finset.sum_eq_single p]
  · simp
  · intro b _ hb; simp [Pi.single_apply, hb]
  · intro h; exact absurd (Finset.mem_univ p) h

/-- composition with C01 / C03: an adjoint coefficient list that is the jet of the gradient entry along the
seeded line (what the reverse sweep over `ℝ[t]/(t^D)` computes) carries the gradient at order 0 and the
Hessian-vector product at order 1 -/
theorem second_order_from_jet (F : (Fin N → ℝ) → ℝ) (x v : Fin N → ℝ) (hF : ContDiffAt ℝ 2 F x) (j : Fin N)
    (xbar : List ℝ) (hl : 1 < xbar.length) (hj : JetOf xbar (fun t => gradAt F (line x v t) j)) :
    co xbar 0 = gradAt F x j ∧ co xbar 1 = ∑ i, hessAt F x j i * v i := by
  refine ⟨?_, ?_⟩
  · rw [hj.coeff 0 (by omega), tc_zero, line_zero]
  · rw [hj.coeff 1 hl]; exact tc_grad_line_one F x v hF j
end second

end AV.C04
