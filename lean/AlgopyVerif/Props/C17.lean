import AlgopyVerif.Proofs.Convert
import AlgopyVerif.Proofs.ShiftOver
import AlgopyVerif.Proofs.Pivot
/-!
# C17 — conversions between representations are lossless and mutually inverse

* `shift`: `shift(shift(x, s), -s)` is `x` with the last `s` coefficients cleared,
  `shift(shift(x, -s), s)` is `x` with the first `s` cleared, `shift(x, 0) = x` (on the
  repaired code: `shift(0)` used to raise); `shift_overshift`: a shift by `|s| ≥ D` gives the zero polynomial;
* `symvec`/`vecsym` (all three storage conventions), all `N`;
* `base_and_dirs2utpm` / `utpm2base_and_dirs`, all shapes, `D`, `P`;
* pivot vectors: the permutation `τ₀…τ_{N-1}` built by `piv2mat` has sign, and its
  permutation matrix has determinant, `(-1)^{#{i : piv i ≠ i}}` = `piv2det`, for **all** `N`
  and all pivot vectors.

Tied to the code by the C17 correspondence run (incl. all pivot vectors for `N ≤ 5`
exhaustively against `scipy.linalg.lu_factor`).  `pivot_loop_is_permutation`: the list-level loop of
`utils.piv2mat` (`swap = arange(N); for i: exchange swap[i], swap[piv[i]]`) produces exactly that
permutation, and `eye(N)[:, swap]` is the transposed permutation matrix (`pivot_matrix_entries`).
`container_shape`, `container_element`: `as_utpm` / `ndarray2utpm` on containers of polynomials of equal coefficient shape.
Not a theorem: `combine_blocks`, constants / mixed element kinds inside a container (partial).
-/
open AV NdArray Equiv
namespace AV.C17
section
variable {K : Type} [Field K]

theorem shift_zero (x : List K) : shiftS 0 x = x := shiftS_zero x

/-- a shift by at least the number of coefficients, in either direction, gives the zero polynomial (nothing wraps around) -/
theorem shift_overshift (s : Int) (x : List K) (h : x.length ≤ s.natAbs) :
    shiftS s x = List.replicate x.length 0 := shiftS_overshift s x h

example : shiftS (-3 : Int) [(1:ℚ), 2] = [0, 0] := by decide +kernel

theorem shift_roundtrip_up_down (s : Nat) (x : List K) (hs : s ≤ x.length) :
    shiftS (-(s:Int)) (shiftS (s:Int) x)
      = (List.range x.length).map fun d => if d + s < x.length then co x d else 0 := shift_up_down s x hs

theorem shift_roundtrip_down_up (s : Nat) (x : List K) (hs : s ≤ x.length) :
    shiftS (s:Int) (shiftS (-(s:Int)) x)
      = (List.range x.length).map fun d => if d < s then 0 else co x d := shift_down_up s x hs
end

section
variable {K : Type} [Field K] [CharZero K]

theorem vecsym_symvec_full (N : Nat) (A : Nat → Nat → K) (hA : ∀ r c, A r c = A c r) (r c : Nat)
    (hr : r < N) (hc : c < N) : vecsymF N (symvecF N 'F' A) r c = A r c := vecsym_symvec_F N A hA r c hr hc

theorem vecsym_symvec_lower (N : Nat) (A : Nat → Nat → K) (r c : Nat) (hr : r < N) (hc : c < N) :
    vecsymF N (symvecF N 'L' A) r c = A (max r c) (min r c) := vecsym_symvec_L N A r c hr hc

theorem vecsym_symvec_upper (N : Nat) (A : Nat → Nat → K) (r c : Nat) (hr : r < N) (hc : c < N) :
    vecsymF N (symvecF N 'U' A) r c = A (min r c) (max r c) := vecsym_symvec_U N A r c hr hc

theorem symvec_vecsym_id (N : Nat) (v : List K) (hv : v.length = (triPairs N).length) :
    symvecF N 'F' (vecsymF N v) = v := symvec_vecsym N v hv
end

section
variable {K : Type} [Field K]
attribute [local instance] inh0

theorem base_and_dirs_roundtrip_base (x V : NdArray K) (s : List Nat) (P D : Nat) (hx : x.shape = s)
    (hV : V.shape = s ++ [P, D]) (hP : 0 < P) (idx : List Nat) (h : ValidIdx s idx) :
    (utpm2baseDirs (baseDirs2utpm x V)).1.get idx = x.get idx := base_roundtrip x V s P D hx hV hP idx h

theorem base_and_dirs_roundtrip_dirs (x V : NdArray K) (s : List Nat) (P D : Nat) (hx : x.shape = s)
    (hV : V.shape = s ++ [P, D]) (idx : List Nat) (h : ValidIdx s idx) (p d : Nat) (hp : p < P) (hd : d < D) :
    (utpm2baseDirs (baseDirs2utpm x V)).2.get (idx ++ [p, d]) = V.get (idx ++ [p, d]) :=
  dirs_roundtrip x V s P D hx hV idx h p d hp hd

/-- `as_utpm` / `ndarray2utpm` on a container of shape `outer` of polynomials with equal coefficient shape `(D, P) + e` (stacked
as `X` of shape `(n, D, P) + e`): the result has shape `(D, P) + outer + e` … -/
theorem container_shape (outer e : List Nat) (X : NdArray K) (n D P : Nat) (hX : X.shape = n :: D :: P :: e) :
    (containerToUtpm outer X).shape = D :: P :: (outer ++ e) := containerToUtpm_shape outer e X n D P hX

/-- … and entry `o` of it is element `ravel o` of the container, coefficient by coefficient (nothing is lost or mixed) -/
theorem container_element (outer e : List Nat) (X : NdArray K) (n D P : Nat) (hX : X.shape = n :: D :: P :: e)
    (d p : Nat) (hd : d < D) (hp : p < P) (o ei : List Nat) (ho : ValidIdx outer o) (he : ValidIdx e ei) :
    (containerToUtpm outer X).get (d :: p :: (o ++ ei)) = X.get (NdArray.ravel outer o :: d :: p :: ei) :=
  containerToUtpm_get outer e X n D P hX d p hd hp o ei ho he

/-- non-vacuity: `[1, 0]` is a valid index of a `2 × 3` container -/
example : ValidIdx [2, 3] [1, 0] := by simp [ValidIdx]
end

/-- determinant sign of the pivot permutation, all `N`, all pivot vectors -/
theorem pivot_sign {N : ℕ} (piv : Fin N → Fin N) :
    Perm.sign (pivPerm piv) = (-1 : ℤˣ) ^ ((List.finRange N).filter fun i => piv i ≠ i).length :=
  sign_pivPerm piv

theorem pivot_matrix_det {N : ℕ} {R : Type} [CommRing R] (piv : Fin N → Fin N) :
    Matrix.det ((pivPerm piv).permMatrix R)
      = ((-1 : ℤˣ) ^ ((List.finRange N).filter fun i => piv i ≠ i).length : ℤˣ) :=
  det_pivPerm_matrix piv

/-- the loop of `utils.piv2mat`: `swap[j] = (τ₀ τ₁ … τ_{N-1})(j)` -/
theorem pivot_loop_is_permutation {N : ℕ} (piv : Fin N → Fin N) :
    pivSwap (List.ofFn fun i => (piv i).val) = List.ofFn fun j => (pivPerm piv j).val :=
  pivSwap_eq_pivPerm piv

/-- `numpy.eye(N)[:, swap]`: entry `(i, j)` is `1` iff `i = σ(j)`, i.e. the transpose of `σ`'s permutation matrix -/
theorem pivot_matrix_entries {N : ℕ} (piv : Fin N → Fin N) (i j : Fin N) :
    piv2matF (List.ofFn fun i => (piv i).val) i.val j.val
      = if i = pivPerm piv j then 1 else 0 := by
  unfold piv2matF
  rw [pivSwap_eq_pivPerm piv]
  have : (List.ofFn fun j => (pivPerm piv j).val).getD j.val 0 = (pivPerm piv j).val := by
    rw [List.getD_eq_getElem?_getD, List.getElem?_ofFn]; simp
  rw [this]
  by_cases h : i = pivPerm piv j
  · simp [h]
  · have : ¬ (i.val = (pivPerm piv j).val) := fun e => h (Fin.ext e)
    simp [h, this]

/-! non-vacuity -/
example : shiftS (1:Int) [(1:ℚ), 2, 3] = [0, 1, 2] := by decide +kernel
example : pivSwap [2, 2, 2] = [2, 0, 1] := by decide
example : triPairs 3 = [(0,0),(0,1),(0,2),(1,1),(1,2),(2,2)] := by decide

end AV.C17
