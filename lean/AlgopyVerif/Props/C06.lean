import AlgopyVerif.Proofs.Tracer
import AlgopyVerif.Proofs.Tape
/-!
# C06 — results are independent of call history

State kept between calls on a recorded graph: the forward values of all nodes (a heap of cells), the
contents saved by in-place writes, and the adjoint buffers.  On the repaired code

* adjoints are re-initialised at the start of every sweep and the sweep is a *function* of
  (tape, forward values, seed) — `Proofs/Tape.lean: rev`;
* the forward values are left intact by a sweep: the restores of the reverse sweep, fed with the
  contents saved **on this evaluation**, bring the buffers back to their initial state
  (`restores_reach_initial_state`) and the writes are re-applied afterwards
  (`sweep_preserves_forward_values`), so any number of sweeps after one forward evaluation see the
  same values (`repeated_sweeps`); since the sweep is a function of (tape, forward values, seed),
  they return the same — correct — adjoints.

The two defects this repairs are kept as counterexample theorems about the model of the old
behaviour: `stale_store_counterexample` (contents saved while recording, used after a re-evaluation)
and `no_reapply_counterexample` (buffers left rolled back after a sweep).

* graphs with **constant work arrays** updated in place (no recorded node re-creates their storage): the repaired
  `CGraph.pushforward` undoes the previous evaluation's writes first; `workarray_history_independent`: after any history the
  evaluation is the one from the recorded heap (writes with arbitrary update functions, so accumulation is covered);
  `workarray_counterexample`: the old behaviour on `acc += x`.  The executable instance `accHistory` is compared with the
  implementation's sequence of values by the C06 run.

That no pullback kernel writes into a forward value (e.g. the old `_pb_tansec`) is checked on the
implementation by node-value snapshots around `cg.pullback` in the C06 run (partial: no theorem).
-/
open AV.Tracer
namespace AV.C06
variable {V : Type}

theorem restores_reach_initial_state (ws : List (Nat × Nat)) (h : Heap V) :
    undoAll (ws.zip (saved ws h)) (wfwd ws h) = h := undoAll_saved ws h

theorem sweep_preserves_forward_values (ws : List (Nat × Nat)) (h : Heap V) :
    sweepValues ws (saved ws h) (wfwd ws h) = wfwd ws h := sweep_preserves_values ws h

theorem repeated_sweeps (ws : List (Nat × Nat)) (h : Heap V) (k : Nat) :
    (fun H => sweepValues ws (saved ws h) H)^[k] (wfwd ws h) = wfwd ws h := sweeps_preserve_values ws h k

/-- contents saved at recording time (heap `[7,7]`), graph re-evaluated at `[1,2]`, one write
`cell0 := cell1`: the restore puts `7` where `1` belongs -/
theorem stale_store_counterexample :
    undoAll ([(0, 1)].zip (saved [(0, 1)] (fun _ => (7:Nat)))) (wfwd [(0, 1)] (fun i => if i = 0 then 1 else 2)) 0 ≠
      (fun i => if i = 0 then 1 else 2 : Heap Nat) 0 := by
  decide

/-- without re-applying the writes the forward value of the written cell is lost after one sweep -/
theorem no_reapply_counterexample :
    undoAll ([(0, 1)].zip (saved [(0, 1)] (fun i => if i = 0 then 1 else 2 : Heap Nat)))
        (wfwd [(0, 1)] (fun i => if i = 0 then 1 else 2)) 0
      ≠ wfwd [(0, 1)] (fun i => if i = 0 then 1 else 2 : Heap Nat) 0 := by
  decide

/-! ### graphs with constant work arrays (`acc = Function(UTPM(zeros)); acc += x; …`) -/

/-- the repaired `CGraph.pushforward` (undo the previous evaluation's writes into constant work arrays, set the inputs,
run the writes — any update function per write, e.g. accumulation): after **any history** of evaluations the evaluation
at `ins` is the evaluation from the recorded heap, whatever was evaluated before -/
theorem workarray_history_independent (ws : List (GWrite V)) (h0 : Heap V) (first : List (Nat × V))
    (hist : List (List (Nat × V))) (ins : List (Nat × V))
    (hc : ∀ a b, a ∈ (first :: hist) ++ [ins] → b ∈ (first :: hist) ++ [ins] → InputsCover a b) :
    evalUndo ws (hist.foldl (evalUndo ws) (evalState ws h0 first)) ins = evalState ws h0 ins :=
  evalUndo_history ws h0 first hist ins hc

/-- non-vacuity of the hypothesis: two evaluations that set the same input cell cover each other -/
example : InputsCover [(1, (5 : Nat))] [(1, 7)] := by
  intro h; funext i; simp only [setIn, List.foldl_cons, List.foldl_nil, upd]; split <;> rfl

/-- the old behaviour on `acc += x` (cells: 0 = acc, 1 = x; recorded with x = 1 from acc = 0): the second evaluation at the
same input returns 3 instead of 1; with the undo both return 1 -/
theorem workarray_counterexample :
    accHistory false [(0, 1)] [0, 0] [(1, 1)] [[(1, 1)], [(1, 1)]] 0 = [2, 3] ∧
    accHistory true [(0, 1)] [0, 0] [(1, 1)] [[(1, 1)], [(1, 1)]] 0 = [1, 1] := by
  decide +kernel

end AV.C06
