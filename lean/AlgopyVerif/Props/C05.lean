import AlgopyVerif.Proofs.Tracer
/-!
# C05 — replaying a recorded graph reproduces the program

Recording state machine (`Model/Tracer.lean`): for every finite sequence of operations
(overloaded calls on traced operands, `trace_off`, `trace_on`) from the empty graph:

* `recording_invariant`: `functionCount = len(functionList)`, the node at position `i` has
  `ID = i`, every argument ID is smaller than the ID of its user (operands are recorded before
  the operation that uses them);
* `one_node_per_operation`: each operation appends exactly one node while tracing is on and none
  while it is off; `nothing_recorded_while_off`; `recorded_nodes_are_stable` (later operations never
  change or reorder what was recorded).

Replay values: in the cell-level semantics a recorded graph *is* the program's tape
(`Proofs/Tape.lean: fwd`), so re-evaluation on new inputs is the program run on those inputs by
definition of the model; that the real `CGraph.pushforward` implements it (fresh buffers from
re-run `zeros` nodes, keyword arguments, constants as `Id` nodes, `Fout.x` updates) is what the
C05 correspondence run checks — partial: no theorem about the Python object graph.
-/
open AV.Tracer
namespace AV.C05

theorem recording_invariant (ops : List Op) (hw : WFOps ops {}) : Inv (run ops {}) :=
  run_inv ops {} inv_init hw

theorem one_node_per_operation (s : TState) (op : Op) :
    (step s op).nodes.length =
      match op with
      | .apply _ _ => if s.tracing then s.nodes.length + 1 else s.nodes.length
      | _ => s.nodes.length := step_length s op

theorem nothing_recorded_while_off (ops : List Op) (s : TState) (hoff : s.tracing = false)
    (hno : ∀ op ∈ ops, op ≠ Op.traceOn) : (run ops s).nodes = s.nodes := run_off ops s hoff hno

theorem recorded_nodes_are_stable (ops : List Op) (s : TState) : s.nodes <+: (run ops s).nodes :=
  run_prefix ops s

/-- non-vacuity: `x; y; x*y; trace_off; x+y` records three nodes with IDs 0,1,2 -/
example : ((run [.apply 0 [], .apply 0 [], .apply 1 [.node 0, .node 1], .traceOff, .apply 2 [.node 0, .node 1]] {}).nodes.map (·.id)) = [0, 1, 2] := by
  decide

end AV.C05
