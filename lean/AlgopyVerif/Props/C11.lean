import AlgopyVerif.Proofs.Lift
import AlgopyVerif.Proofs.TapeNatural
/-!
# C11 — directions are propagated independently

Model level (L2, `Model/Utpm.lean`), for all `D`, `P`, shapes:

* every element-wise function (`mapS1 f`, i.e. all of C01's functions, with their
  per-direction leaves): the coefficients of direction `p` of the `P`-direction
  evaluation are those of the evaluation on direction `p` alone — also when the
  directions have different base points (the leaves are per direction);
* every binary operator (`zipS2 f` after UTPM-aware broadcasting) with `P` directions
  on both sides: result direction `p` is a function of direction `p` of the operands
  only.

**Reverse sweep** (`reverse_sweep_direction`): over the ring `Fin P → S` of `P` directions (one element of `S = ℝ[t]/(t^D)` per
direction), the adjoints of direction `p` produced by the reverse sweep of any tape whose computations act direction by direction
(the compatibility hypothesis: ring operations satisfy it for free, `ring_ops_direction_compatible`; a series kernel satisfies it by
`elementwise_direction`) are the adjoints produced by the sweep of direction `p` alone.  No information flows between directions
in the sweep either.

Matrix kernels have explicit `p` loops in the code; for those the property is checked on the implementation by per-direction
re-evaluation (correspondence run), not by a theorem (partial).
-/
open AV NdArray
namespace AV.C11
variable {K : Type} [Field K]
attribute [local instance] inh0

theorem elementwise_direction (f : List K → List K → List K) (leaves : List (NdArray K)) (x : NdArray K)
    (D P : Nat) (s : List Nat) (hx : x.shape = D :: P :: s) (hl : ∀ l ∈ leaves, l.shape = P :: s)
    (p : Nat) (idx : List Nat) (hp : p < P) (h : ValidIdx s idx) :
    seriesAt (mapS1 f (leaves.map (dirLeaf p)) (dirOf p x)) 0 idx = seriesAt (mapS1 f leaves x) p idx :=
  mapS1_direction f leaves x D P s hx hl p idx hp h

theorem binary_direction (f : List K → List K → List K) (x y z : NdArray K) (D P : Nat) (sx sy s : List Nat)
    (hx : x.shape = D :: P :: sx) (hy : y.shape = D :: P :: sy) (hs : broadcastShapes sx sy = some s)
    (hz : zipS2 f x y = some z) (p : Nat) (idx : List Nat) (hp : p < P) (h : ValidIdx s idx) :
    seriesAt z p idx = (List.range D).map fun d =>
      co (f ((List.range D).map fun d => x.get (d :: p :: bidx sx idx))
            ((List.range D).map fun d => y.get (d :: p :: bidx sy idx))) d :=
  seriesAt_zipS2_sameDP f x y z D P sx sy s hx hy hs hz p idx hp h

/-- the series of a direction projection is the series of that direction -/
theorem direction_series (p : Nat) (x : NdArray K) (D P : Nat) (s : List Nat) (hx : x.shape = D :: P :: s)
    (idx : List Nat) (h : ValidIdx s idx) : seriesAt (dirOf p x) 0 idx = seriesAt x p idx :=
  seriesAt_dirOf p x D P s hx idx h

/-- non-vacuity: a valid index of a concrete shape -/
example : ValidIdx [2, 3] [1, 2] := by simp [ValidIdx]


section
open AV.Tape
variable {S : Type} [CommRing S]

/-- **the reverse sweep does not mix directions**: for tapes over `P` directions whose computations act direction by direction,
direction `p` of every adjoint is the adjoint of the sweep of direction `p` alone (values and seeds projected) -/
theorem reverse_sweep_direction (P : Nat) (p : Fin P) (t : List (Instr (Fin P → S))) (t' : List (Instr S))
    (hc : List.Forall₂ (Instr.Compat (fun x : Fin P → S => x p)) t t') (h bar : Heap (Fin P → S)) (c : Nat) :
    (rev t h bar c) p = rev t' (fun i => h i p) (fun i => bar i p) c :=
  congrFun (rev_natural (fun x : Fin P → S => x p) (fun _ _ => rfl) rfl t t' hc h bar) c

/-- the forward evaluation as well -/
theorem forward_sweep_direction (P : Nat) (p : Fin P) (t : List (Instr (Fin P → S))) (t' : List (Instr S))
    (hc : List.Forall₂ (Instr.Compat (fun x : Fin P → S => x p)) t t') (h : Heap (Fin P → S)) (c : Nat) :
    (fwd t h c) p = fwd t' (fun i => h i p) c :=
  congrFun (fwd_natural (fun x : Fin P → S => x p) t t' hc h) c

/-- ring operations act direction by direction (so every polynomial program satisfies the hypothesis) -/
theorem ring_ops_direction_compatible (P : Nat) (p : Fin P) (dst a b : Nat) :
    Comp.Compat (fun x : Fin P → S => x p) (addComp dst a b) (addComp dst a b)
    ∧ Comp.Compat (fun x : Fin P → S => x p) (subComp dst a b) (subComp dst a b)
    ∧ Comp.Compat (fun x : Fin P → S => x p) (mulComp dst a b) (mulComp dst a b) :=
  ⟨addComp_compat (Pi.evalRingHom (fun _ : Fin P => S) p) dst a b,
   subComp_compat (Pi.evalRingHom (fun _ : Fin P => S) p) dst a b,
   mulComp_compat (Pi.evalRingHom (fun _ : Fin P => S) p) dst a b⟩

/-- non-vacuity: the tape `c2 := c0 * c1; c0 := c2` over two directions is compatible with itself over one -/
example : List.Forall₂ (Instr.Compat (fun x : Fin 2 → ℤ => x 1))
    [.comp (mulComp 2 0 1), .write 0 2] [.comp (mulComp 2 0 1), .write 0 2] :=
  .cons (.comp _ _ (mulComp_compat (Pi.evalRingHom (fun _ : Fin 2 => ℤ) 1) 2 0 1)) (.cons (.write 0 2) .nil)
end

end AV.C11
