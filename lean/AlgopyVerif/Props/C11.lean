import AlgopyVerif.Proofs.Lift
/-!
# C11 — directions are propagated independently

Model level (L2, `Model/Utpm.lean`), for all `D`, `P`, shapes:

* every element-wise function (`mapS1 f`, i.e. all of C01's functions, with their
  per-direction leaves): the coefficients of direction `p` of the `P`-direction
  evaluation are those of the evaluation on direction `p` alone — also when the
  directions have different base points (the leaves are per direction);
* every binary operator (`zipS2 f` after UTPM-aware broadcasting) with `P` directions
  on both sides: result direction `p` is a function of direction `p` of the operands
  only.

Matrix kernels and the reverse sweep have explicit `p` loops in the code; for those the
property is checked on the implementation by per-direction re-evaluation (correspondence
run), not yet by a theorem (partial).
-/
open AV NdArray
namespace AV.C11
variable {K : Type} [Field K]
attribute [local instance] inh0

theorem elementwise_direction (f : List K → List K → List K) (leaves : List (NdArray K)) (x : NdArray K)
    (D P : Nat) (s : List Nat) (hx : x.shape = D :: P :: s) (hl : ∀ l ∈ leaves, l.shape = P :: s)
    (p : Nat) (idx : List Nat) (hp : p < P) (h : ValidIdx s idx) :
    seriesAt (mapS1 f (leaves.map (dirLeaf p)) (dirOf p x)) 0 idx = seriesAt (mapS1 f leaves x) p idx :=
  mapS1_direction f leaves x D P s hx hl p idx hp h

theorem binary_direction (f : List K → List K → List K) (x y z : NdArray K) (D P : Nat) (sx sy s : List Nat)
    (hx : x.shape = D :: P :: sx) (hy : y.shape = D :: P :: sy) (hs : broadcastShapes sx sy = some s)
    (hz : zipS2 f x y = some z) (p : Nat) (idx : List Nat) (hp : p < P) (h : ValidIdx s idx) :
    seriesAt z p idx = (List.range D).map fun d =>
      co (f ((List.range D).map fun d => x.get (d :: p :: bidx sx idx))
            ((List.range D).map fun d => y.get (d :: p :: bidx sy idx))) d :=
  seriesAt_zipS2_sameDP f x y z D P sx sy s hx hy hs hz p idx hp h

/-- the series of a direction projection is the series of that direction -/
theorem direction_series (p : Nat) (x : NdArray K) (D P : Nat) (s : List Nat) (hx : x.shape = D :: P :: s)
    (idx : List Nat) (h : ValidIdx s idx) : seriesAt (dirOf p x) 0 idx = seriesAt x p idx :=
  seriesAt_dirOf p x D P s hx idx h

/-- non-vacuity: a valid index of a concrete shape -/
example : ValidIdx [2, 3] [1, 2] := by simp [ValidIdx]

end AV.C11
