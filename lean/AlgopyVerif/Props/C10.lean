import AlgopyVerif.Proofs.Lift
import AlgopyVerif.Proofs.PowerSeries
import AlgopyVerif.Proofs.Linalg
import AlgopyVerif.Proofs.Ode
/-!
# C10 — zeroth coefficient, shapes and comparisons follow NumPy

* the zeroth coefficient of every L0 kernel is the NumPy/SciPy value on the zeroth
  coefficients (the leaf, or the plain arithmetic result), independent of every higher
  input coefficient;
* the comparison operators are `numpy.all` of the comparison of zeroth coefficients, so
  they do not depend on higher coefficients;
* shape laws of the L2 model: element-wise functions keep the shape, binary operators
  return the broadcast shape.

* matrix kernels over any ring: `dot`, `inv`, `solve` have zeroth coefficient `X₀Y₀`, `inv(A₀)`,
  `A₀⁻¹B₀` (the NumPy leaf); the fold-based kernels `_eval_slow_generic`, `_dawsn` return the leaf `f(x₀)`.

The dispatcher behaviour (plain arrays go to NumPy), factorizations and shapes of the matrix functions are
checked on the implementation by the C10 correspondence run.
-/
open AV NdArray Finset
namespace AV.C10
section
variable {K : Type} [Field K]

theorem add_zeroth (x y : List K) (h : 0 < x.length) : co (addS x y) 0 = co x 0 + co y 0 := addS_co x y 0 h
theorem sub_zeroth (x y : List K) (h : 0 < x.length) : co (subS x y) 0 = co x 0 - co y 0 := subS_co x y 0 h

theorem mul_zeroth (x y : List K) (h : 0 < x.length) : co (mulS x y) 0 = co x 0 * co y 0 := by
  rw [mulS_co x y 0 h]; simp

theorem div_zeroth (x y : List K) (h : 0 < x.length) : co (divS x y) 0 = co x 0 / co y 0 := by
  rw [divS_co x y 0 h]; simp; ring

theorem reciprocal_zeroth (y : List K) (h : 0 < y.length) : co (recipS y) 0 = 1 / co y 0 := by
  rw [recipS_co y 0 h]; simp

theorem square_zeroth (x : List K) (h : 0 < x.length) : co (squareS x) 0 = co x 0 * co x 0 := by
  unfold squareS
  rw [co_map_range _ _ _ h]
  simp

theorem exp_zeroth (y0 : K) (x : List K) (h : 0 < x.length) : co (expS y0 x) 0 = y0 := expS_zero y0 x h
theorem log_zeroth (y0 : K) (x : List K) (h : 0 < x.length) : co (logS y0 x) 0 = y0 := logS_zero y0 x h
theorem sqrt_zeroth (y0 : K) (x : List K) (h : 0 < x.length) : co (sqrtS y0 x) 0 = y0 := sqrtS_zero y0 x h
theorem sincos_zeroth (s0 c0 : K) (x : List K) (h : 0 < x.length) :
    co (sincosS s0 c0 x).1 0 = s0 ∧ co (sincosS s0 c0 x).2 0 = c0 := sincosS_zero s0 c0 x h

theorem pow_real_zeroth (r y0 : K) (x : List K) (h : 0 < x.length) : co (powRealS r y0 x) 0 = y0 := by
  unfold powRealS
  rw [co_build _ _ _ h]
  simp [build, powRealStep]

theorem tansec2_zeroth (y0 z0 : K) (x : List K) (h : 0 < x.length) :
    co (tansec2S y0 z0 x).1 0 = y0 ∧ co (tansec2S y0 z0 x).2 0 = z0 := by
  unfold tansec2S
  rw [co_unzip_fst, co_unzip_snd, build_getD _ _ _ h]
  simp [build, tansec2Step]

theorem tanhsech2_zeroth (y0 z0 : K) (x : List K) (h : 0 < x.length) :
    co (tanhsech2S y0 z0 x).1 0 = y0 ∧ co (tanhsech2S y0 z0 x).2 0 = z0 := by
  unfold tanhsech2S
  rw [co_unzip_fst, co_unzip_snd, build_getD _ _ _ h]
  simp [build, tanhsech2Step]

theorem sinhcosh_zeroth (s0 c0 : K) (x : List K) (h : 0 < x.length) :
    co (sinhcoshS s0 c0 x).1 0 = s0 ∧ co (sinhcoshS s0 c0 x).2 0 = c0 := by
  unfold sinhcoshS
  rw [co_unzip_fst, co_unzip_snd, build_getD _ _ _ h]
  simp [build, sinhcoshStep]

theorem arcsin_zeroth (y0 z0 : K) (x : List K) (h : 0 < x.length) : co (arcsinS y0 z0 x).1 0 = y0 := by
  unfold arcsinS
  rw [co_unzip_fst, build_getD _ _ _ h]
  simp [build, arcsinStep]

theorem arctan_zeroth (y0 : K) (x : List K) (h : 0 < x.length) : co (arctanS y0 x).1 0 = y0 := by
  unfold arctanS
  rw [co_unzip_fst, build_getD _ _ _ h]
  simp [build, arctanStep]

theorem black_white_zeroth (f0 : K) (fp x : List K) (h : 0 < x.length) : co (blackWhiteS f0 fp x) 0 = f0 := by
  unfold blackWhiteS
  rw [co_map_range _ _ _ h]
  simp

/-! ## comparisons -/
attribute [local instance] inh0

/-! ### matrix kernels (any ring) and fold-based kernels -/
theorem dot_zeroth {R : Type} [Ring R] (x y : List R) (h : 0 < x.length) : coR (dotM x y) 0 = coR x 0 * coR y 0 := by
  rw [dotM_co x y 0 h]; simp

theorem inv_zeroth {R : Type} [Ring R] (x : List R) (y0 : R) (h : 0 < x.length) : coR (invM x y0) 0 = y0 :=
  invM_zero x y0 h

theorem solve_zeroth {R : Type} [Ring R] (a : List R) (a0inv : R) (b : List R) (h : 0 < b.length) :
    coR (solveM a a0inv b) 0 = a0inv * coR b 0 := by
  rw [solveM_co a a0inv b 0 h]; simp

theorem slow_generic_zeroth (derivs x : List ℝ) (h : 0 < x.length) : co (slowGenericS derivs x) 0 = co derivs 0 := by
  have hinit : SGInv derivs x (curve x) 0 [] (List.map (fun i => if i = 0 then co derivs 0 else 0) (List.range x.length)) := by
    refine ⟨Or.inl rfl, by simp, ?_, ?_⟩
    · intro hl; rw [co_map_range _ _ _ hl]; simp
    · intro i hi1 hi; rw [co_map_range _ _ _ hi, if_neg (by omega)]; simp
  obtain ⟨a, hfin⟩ := go_spec (jetOf_curve x) derivs (x.length - 1) 0 [] _ hinit
  exact hfin.y0 h

/-- `x < y` (and `<=, >, >=, ==`) is `numpy.all` over the zeroth coefficients -/
theorem compare_iff (r : K → K → Bool) (x y : NdArray K) (D P : Nat) (s : List Nat)
    (hx : x.shape = D :: P :: s) :
    cmpAll r x y = true ↔
      ∀ p idx, p < P → ValidIdx s idx → r (x.get (0 :: p :: idx)) (y.get (0 :: p :: idx)) = true := by
  unfold cmpAll
  have hP : utP x = P := by simp [utP, hx]
  have hS : utShape x = s := by simp [utShape, hx]
  simp only [hP, hS, List.all_eq_true, List.mem_range]
  constructor
  · intro h p idx hp hv
    have hv' : ValidIdx (P :: s) (p :: idx) := ⟨hp, hv⟩
    have := h (ravel (P :: s) (p :: idx)) (ravel_lt _ _ hv')
    rwa [unravel_ravel _ _ hv'] at this
  · intro h k hk
    have hv := unravel_valid (P :: s) k hk
    match hu : unravel (P :: s) k, hv with
    | p :: idx, ⟨hp, hi⟩ => exact h p idx hp hi

/-- comparisons do not look at higher-order coefficients -/
theorem compare_ignores_higher (r : K → K → Bool) (x x' y y' : NdArray K)
    (hs : x'.shape = x.shape)
    (hx : ∀ i, x'.get (0 :: i) = x.get (0 :: i)) (hy : ∀ i, y'.get (0 :: i) = y.get (0 :: i)) :
    cmpAll r x' y' = cmpAll r x y := by
  unfold cmpAll
  have hP : utP x' = utP x := by simp [utP, hs]
  have hS : utShape x' = utShape x := by simp [utShape, hs]
  simp only [hP, hS, hx, hy]

/-! ## shape laws -/
theorem elementwise_shape (f : List K → List K → List K) (leaves : List (NdArray K)) (x : NdArray K)
    (D P : Nat) (s : List Nat) (hx : x.shape = D :: P :: s) : (mapS1 f leaves x).shape = x.shape := by
  simp [mapS1, ofSeries, ofFn, utD, utP, utShape, hx]

theorem binary_shape (f : List K → List K → List K) (x y z : NdArray K) (sh : List Nat)
    (hb : utBroadcastShape x.shape y.shape = some sh) (hlen : 2 ≤ sh.length) (hz : zipS2 f x y = some z) :
    z.shape = sh := by
  unfold zipS2 at hz
  rw [hb] at hz
  simp only [Option.bind_eq_bind, Option.bind_some, Option.pure_def, Option.some.injEq] at hz
  subst hz
  match sh, hlen with
  | a :: b :: rest, _ => simp [ofSeries, ofFn]

end
end AV.C10
