import AlgopyVerif.Proofs.Tape
import AlgopyVerif.Proofs.Pullback
import AlgopyVerif.Proofs.MatPullback
import AlgopyVerif.Proofs.ArrayAdjoint
import AlgopyVerif.Proofs.EighPullback
import AlgopyVerif.Proofs.JacobiGeneral
/-!
# C03 — reverse mode agrees with forward mode at every Taylor order

**Global theorem** (`reverse_is_adjoint_of_forward`): for every tape of `comp` instructions
(fresh cell := function of argument cells, with tangent `df` and pullback `pb` satisfying the local
adjoint condition `Comp.Adj`) and in-place `write`s (overwrites, also `buf[i] = buf[i]`), every
heap, every tangent `dh` and every seed `bar`, over any commutative ring `A`:

      ⟨rev tape h bar, dh⟩ = ⟨bar, tan tape h dh⟩ .

With `A = R[t]/(t^D)` (one copy per direction) this is the property's identity
`⟨xbar(t), v(t)⟩ = ⟨ybar(t), F'(x(t)) v(t)⟩ mod t^D`: array programs lower to cell-level tapes
(an element-wise operation with broadcasting is one `comp` per output cell, `sum/dot/trace` are
`comp`s of higher arity, views — `getitem`, `transpose`, contiguous `reshape` — are sub-arrays of
cell ids and generate no instruction, `setitem` is one `write` per cell).

**Local adjoint lemmas**, each mirroring a `pb_*` formula of the code: `add, sub, mul, truediv,
neg/scale, copy`, every unary function whose tangent is multiplication by `g = f'(x)` in `A`
(`exp: y`, `log: 1/x`, `sqrt: 1/(2y)`, `square: 2x`, `reciprocal: -1/x²`, `sin: c`, `cos: -s`,
`tan: z`, `pow`, the black/white family, the Faà-di-Bruno family), `sum` of any arity, `dot`.

**Series level**: the pullback kernels of `Model/Pullback.lean` (tied to the code by the
correspondence run for 25 unary + 4 binary kernels) are these ring expressions in `R[t]/(t^D)`
(`pbExp_spec, pbLog_spec, pbDiv_spec`).

**Matrix pullbacks** (`matrix_*` below, `Proofs/MatPullback.lean`), over any commutative ring `S`
(`= ℝ[t]/(t^D)`), with `⟪A,B⟫ = tr(AᵀB)`: `dot` (`Xbar = Zbar Yᵀ`, `Ybar = Xᵀ Zbar`), `inv`
(`Xbar = -Yᵀ Ybar Yᵀ`, tangent `-Y dX Y` derived from `XY = 1`), `solve` (`Bbar = Yᵀ Zbar`,
`Xbar = -Bbar Zᵀ`), `trace`, `transpose`, `det` (Jacobi's formula in algebraic form; `Xbar = ybar det(X) X⁻ᵀ`).
The C03 run compares `pb_dot, pb_inv, pb_solve, pb_trace, pb_det` of the code with exactly these formulas
evaluated in Taylor arithmetic.  **Symmetric eigendecomposition** (`matrix_eigh_tangent`, `matrix_eigh_adjoint`): from the
linearised defining equations, `dΛ = diag(QᵀdAQ)` and `dQ = Q (H ∘ QᵀdAQ)` with `H_mn (λ_n − λ_m) = 1` **in the
series ring** (a Taylor polynomial, not its order-0 value — the defect repaired in `_eigh_pullback`), and
`Abar = Q (Λbar + H ∘ (QᵀQbar)) Qᵀ` is the adjoint.

**Array level** (`gather_scatter_adjoint`, `reduction_adjoint`, `item_assignment_adjoint`,
`Proofs/ArrayAdjoint.lean`): every cell-moving operation (broadcasting, basic indexing / views, reshape,
transpose, tile, diag) is a gather `y_i = x_{m(i)}` along an index map `m`, not necessarily injective; its
adjoint is the scatter-add `xbar_j = Σ_{m(i)=j} ybar_i` (for broadcasting: the sum over the broadcast axes —
what the repaired `pb___setitem__` and the binary pullbacks do); reductions are the transposed pair; item
assignment along an injective map gives `ybar` masked outside the selection to the old contents and `ybar`
gathered through the selection to the assigned value.

Not proved (partial): the lowering of the array-level tracer to tapes is argued, not mechanised;
the local adjoint conditions of the other factorization pullbacks (`logdet` through `lu2`, `qr, cholesky, lu,
svd`) — those are checked on the implementation by the adjoint-identity oracle.
-/
open AV AV.Tape
namespace AV.C03
variable {A : Type} [CommRing A]

theorem reverse_is_adjoint_of_forward (n : Nat) (tape : List (Instr A)) (h dh bar : Heap A)
    (hw : WF n tape h dh) : pair n (rev tape h bar) dh = pair n bar (tan tape h dh) :=
  tape_adjoint n tape h dh bar hw

/-- the pairing with the indicator of cell `c` on the right reads off entry `c` -/
theorem pair_unit_right (n c : Nat) (hc : c < n) (u : Heap A) : pair n u (fun i => if i = c then 1 else 0) = u c := by
  unfold pair
  rw [Finset.sum_eq_single c]
  · simp
  · intro b _ hb; simp [hb]
  · intro h; exact absurd (Finset.mem_range.mpr hc) h

/-- **superposition**: the reverse sweep is additive in the seed on every cell whose indicator is an admissible
tangent (an input cell: never the destination of a `comp`).  In particular, when an operand has a second
consumer recorded after an operation, its adjoint is the sum of the two separately seeded adjoints — the identity the
C03 run evaluates for every registered operation (a pullback that overwrites instead of accumulating breaks it). -/
theorem reverse_sweep_superposition (n : Nat) (tape : List (Instr A)) (h b1 b2 : Heap A) (c : Nat) (hc : c < n)
    (hw : WF n tape h (fun i => if i = c then 1 else 0)) :
    rev tape h (fun i => b1 i + b2 i) c = rev tape h b1 c + rev tape h b2 c := by
  rw [← pair_unit_right n c hc (rev tape h (fun i => b1 i + b2 i)), ← pair_unit_right n c hc (rev tape h b1),
    ← pair_unit_right n c hc (rev tape h b2), tape_adjoint n tape h _ _ hw, tape_adjoint n tape h _ _ hw,
    tape_adjoint n tape h _ _ hw]
  unfold pair
  rw [← Finset.sum_add_distrib]
  exact Finset.sum_congr rfl fun i _ => by ring

theorem local_adjoint_unary (dst a : Nat) (f g : A → A) : (unaryComp dst a f g).Adj := unaryComp_adj dst a f g
theorem local_adjoint_add (dst a b : Nat) : (addComp (A := A) dst a b).Adj := addComp_adj dst a b
theorem local_adjoint_sub (dst a b : Nat) : (subComp (A := A) dst a b).Adj := subComp_adj dst a b
theorem local_adjoint_mul (dst a b : Nat) : (mulComp (A := A) dst a b).Adj := mulComp_adj dst a b
theorem local_adjoint_div (dst a b : Nat) (inv : A → A) : (divComp dst a b inv).Adj := divComp_adj dst a b inv
theorem local_adjoint_sum (dst : Nat) (args : List Nat) : (sumComp (A := A) dst args).Adj := sumComp_adj dst args
theorem local_adjoint_scale (dst a : Nat) (c : A) : (scaleComp dst a c).Adj := scaleComp_adj dst a c
theorem local_adjoint_copy (dst a : Nat) : (copyComp (A := A) dst a).Adj := copyComp_adj dst a
theorem local_adjoint_dot (dst : Nat) (xs ys : List Nat) (hl : xs.length = ys.length) :
    (dotComp (A := A) dst xs ys).Adj := dotComp_adj dst xs ys hl

/-- the overwrite `cell d := cell s` is adjoint-correct also for `d = s` (repaired `pb___setitem__`) -/
theorem write_step_adjoint (n : Nat) (h dh bar : Heap A) (d s : Nat) (hd : d < n) (hs : s < n) :
    pair n (rev1 h bar (.write d s)) dh = pair n bar (tan1 h dh (.write d s)) :=
  step_adj n h dh bar (.write d s) ⟨hd, hs⟩

section
variable {K : Type} [Field K]
open PowerSeries

theorem pullback_exp_is_ring_expr (ybar y xbar : List K) (hl : ybar.length = xbar.length) (d : Nat) (hd : d < xbar.length) :
    co (pbExp ybar y xbar) d = coeff d (toPS xbar + toPS ybar * toPS y) := pbExp_spec ybar y xbar hl d hd

theorem pullback_log_is_ring_expr (ybar x xbar : List K) (hx : co x 0 ≠ 0) (hl : ybar.length = x.length) :
    pbLog ybar x xbar = addS xbar (mulS ybar (recipS x)) := pbLog_spec ybar x xbar hx hl

theorem pullback_div_is_ring_expr (zbar y z xbar ybar : List K) (hy : co y 0 ≠ 0) (hl : zbar.length = y.length) :
    pbDiv zbar y z xbar ybar = (addS xbar (mulS zbar (recipS y)), subS ybar (mulS (mulS zbar (recipS y)) z)) :=
  pbDiv_spec zbar y z xbar ybar hy hl
end

/-! ## array-level structural operations -/
section
open AV.ArrayAdj
variable {ι κ : Type} [Fintype ι] [Fintype κ] [DecidableEq κ]

theorem gather_scatter_adjoint (m : ι → κ) (ybar : ι → A) (dx : κ → A) :
    ∑ i, ybar i * dx (m i) = ∑ j, scatterAdd m ybar j * dx j := gather_adjoint m ybar dx

theorem reduction_adjoint (m : ι → κ) (ybar : κ → A) (dx : ι → A) :
    ∑ j, ybar j * scatterAdd m dx j = ∑ i, ybar (m i) * dx i := reduce_adjoint m ybar dx

theorem item_assignment_adjoint [DecidableEq ι] (m : ι → κ) (hm : Function.Injective m) (ybar dx : κ → A) (dv : ι → A) :
    ∑ j, ybar j * assign m dx dv j
      = (∑ j, (if ∃ i, m i = j then 0 else ybar j) * dx j) + ∑ i, ybar (m i) * dv i :=
  assign_adjoint m hm ybar dx dv

/-- non-vacuity: broadcasting a length-1 axis to length 3 sums the three adjoints -/
example : scatterAdd (A := ℤ) (fun _ : Fin 3 => (0 : Fin 1)) (fun i => (i : ℤ) + 1) 0 = 6 := by
  decide
end

/-! ## matrix pullbacks -/
section
open Matrix AV.MatPB
variable {S : Type} [CommRing S] {n m k : Type} [Fintype n] [Fintype m] [Fintype k]
  [DecidableEq n] [DecidableEq m] [DecidableEq k]

theorem matrix_dot_adjoint (X dX : Matrix n m S) (Y dY : Matrix m k S) (Zbar : Matrix n k S) :
    pair Zbar (dX * Y + X * dY) = pair (Zbar * Yᵀ) dX + pair (Xᵀ * Zbar) dY := dot_adjoint X dX Y dY Zbar

theorem matrix_inv_adjoint (X Y dX dY Ybar : Matrix n n S) (hYX : Y * X = 1) (hlin : dX * Y + X * dY = 0) :
    pair Ybar dY = pair (-(Yᵀ * (Ybar * Yᵀ))) dX := by
  rw [inv_tangent X Y dX dY hYX hlin]; exact inv_adjoint Y dX Ybar

theorem matrix_solve_adjoint (X Y dX : Matrix n n S) (Z dZ dB Zbar : Matrix n k S) (hYX : Y * X = 1)
    (hlin : dX * Z + X * dZ = dB) :
    pair Zbar dZ = pair (Yᵀ * Zbar) dB + pair (-(Yᵀ * Zbar * Zᵀ)) dX := by
  rw [solve_tangent X Y dX Z dZ dB hYX hlin]; exact solve_adjoint Y dX Z dB Zbar

theorem matrix_trace_adjoint (dX : Matrix n n S) (ybar : S) :
    ybar * dX.trace = pair (ybar • (1 : Matrix n n S)) dX := trace_adjoint dX ybar

theorem matrix_transpose_adjoint (dX : Matrix n m S) (Ybar : Matrix m n S) : pair Ybar dXᵀ = pair Ybarᵀ dX :=
  transpose_adjoint dX Ybar

/-- tangent of `eigh` from the linearised defining equations (no 2-torsion: `2` is a unit in `ℝ[t]/(t^D)`) -/
theorem matrix_eigh_tangent (A dA Q dQ : Matrix n n S) (l dl : n → S) (H : Matrix n n S)
    (hQtQ : Qᵀ * Q = 1) (hAQ : A * Q = Q * Matrix.diagonal l)
    (hlin : dA * Q + A * dQ = dQ * Matrix.diagonal l + Q * Matrix.diagonal dl)
    (hskew : Qᵀ * dQ + dQᵀ * Q = 0)
    (hH : ∀ a b, a ≠ b → H a b * (l b - l a) = 1) (hH0 : ∀ a, H a a = 0) (hsymA : Aᵀ = A)
    (h2 : ∀ a : S, a + a = 0 → a = 0) :
    (∀ a, dl a = (Qᵀ * dA * Q) a a) ∧ Qᵀ * dQ = had H (Qᵀ * dA * Q) :=
  eigh_tangent A dA Q dQ l dl H hQtQ hAQ hlin hskew hH hH0 hsymA h2

/-- `_eigh_pullback`: `Abar = Q (Λbar + H ∘ (QᵀQbar)) Qᵀ` -/
theorem matrix_eigh_adjoint (dA Q Qbar : Matrix n n S) (lbar : n → S) (H : Matrix n n S) :
    pair (Matrix.diagonal lbar) (Matrix.of fun i j => if i = j then (Qᵀ * dA * Q) i j else 0)
        + pair Qbar (Q * had H (Qᵀ * dA * Q))
      = pair (Q * (Matrix.diagonal lbar + had H (Qᵀ * Qbar)) * Qᵀ) dA :=
  eigh_adjoint dA Q Qbar lbar H

theorem matrix_det_adjoint (X Y dX : Matrix n n S) (hXY : X * Y = 1) (ybar r : S) :
    (∃ c : S, (X + r • dX).det = X.det + X.det * (Y * dX).trace * r + c * r ^ 2)
    ∧ ybar * (X.det * (Y * dX).trace) = pair ((ybar * X.det) • Yᵀ) dX :=
  ⟨det_tangent X Y dX hXY r, det_adjoint X Y dX ybar⟩

/-- `pb_det` at **every** matrix, also a singular one (the branch that evaluates the adjugate division-free): the tangent of
`det` is `tr(adj(X) dX)` (Jacobi's formula without invertibility) and `Xbar = ybar · adj(X)ᵀ` is its adjoint; for an
invertible `X` the adjugate is `det X · X⁻¹`, the formula of the LU branch -/
theorem matrix_det_adjoint_every_matrix (X dX : Matrix n n S) (ybar r : S) :
    (∃ c : S, (X + r • dX).det = X.det + (X.adjugate * dX).trace * r + c * r ^ 2)
    ∧ ybar * (X.adjugate * dX).trace = pair (ybar • X.adjugateᵀ) dX
    ∧ (∀ Y : Matrix n n S, X * Y = 1 → X.adjugate = X.det • Y) :=
  ⟨AV.Jacobi.det_tangent_adjugate X dX r, AV.Jacobi.det_adjoint_adjugate X dX ybar,
   fun Y h => AV.Jacobi.adjugate_eq_det_smul_inv X Y h⟩
end

/-- non-vacuity: a two-instruction tape `c2 := c0 * c1; c0 := c2` over ℤ satisfies `WF` -/
example : WF (A := ℤ) 3 [.comp (mulComp 2 0 1), .write 0 2] (fun i => if i = 0 then 2 else if i = 1 then 3 else 0) (fun i => if i < 2 then 1 else 0) := by
  refine ⟨⟨mulComp_adj 2 0 1, by decide, ?_, by decide⟩, ⟨by decide, by decide⟩, trivial⟩
  intro a ha
  simp [mulComp] at ha
  rcases ha with rfl | rfl <;> decide

end AV.C03
