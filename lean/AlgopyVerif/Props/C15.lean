import AlgopyVerif.Proofs.Interp
import AlgopyVerif.Proofs.GammaUnivariate
/-!
# C15 — exact-interpolation coefficients reconstruct mixed partial derivatives

* `multi_indices_complete_nodup`: for all `N ≥ 1`, `d`: the multi-index list contains exactly
  the lists of length `N` with sum `d`, each once (every monomial of degree `d` exactly once).
* `Gamma_identity_N_d`: `Σ_j Γ[i,j]·ray_j^α = δ(i,α)` for all multi-indices `i, α` of degree
  `d`, **proved by kernel evaluation over `Rat`** (`decide +kernel`, no axioms) for every
  `(N, d)` of the table below (heavier entries `(4,4), (3,5), (5,3)` in `Props/C15Big.lean`,
  built in the thorough tier).
* `Gamma_identity_one_variable`: for **one variable the identity holds for every degree** `d ≥ 1` (no bound), by proof:
  `Γ = γ(d,d) = d^{-d}` (`Gamma_one_variable_value`) since the `d`-th forward difference of `x^d` is `d!`.
  The statement for unbounded `(N, d)` with `N ≥ 2` is not proved
  (`Gamma_identity` for all `N, d` remains open: partial) — the property's own quantifier asks
  for exhaustive exploration up to a bound in exact rational arithmetic, which this delivers
  with the kernel as the checker.
-/
open AV.Interp
namespace AV.C15

/-- every monomial of degree `d` in `N+1` variables appears, and only those -/
theorem multi_indices_complete (N d : Nat) (i : List Nat) :
    i ∈ multiIndices (N+1) d ↔ i.length = N+1 ∧ i.sum = d := mem_multiIndices_succ N d i

/-- … exactly once -/
theorem multi_indices_nodup (N d : Nat) : (multiIndices N d).Nodup := nodup_multiIndices N d

/-- **one variable, EVERY degree** (no bound): the identity `Σ_j Γ[i,j]·ray_j^α = δ(i,α)` holds on the model for `N = 1` and all
`d ≥ 1` — there `Γ = γ(d,d) = d^{-d}`, because the `d`-th forward difference of `x^d` is `d!` -/
theorem Gamma_identity_one_variable (d : Nat) (hd : 0 < d) : checkIdentity 1 d = true := checkIdentity_one d hd

/-- the value of the single entry of Γ for one variable -/
theorem Gamma_one_variable_value (d : Nat) (hd : 0 < d) : gamma [d] [d] = 1 / (d : ℚ) ^ d := gamma_single d hd

theorem Gamma_identity_1_1 : checkIdentity 1 1 = true := by decide +kernel
theorem Gamma_identity_1_2 : checkIdentity 1 2 = true := by decide +kernel
theorem Gamma_identity_1_3 : checkIdentity 1 3 = true := by decide +kernel
theorem Gamma_identity_1_4 : checkIdentity 1 4 = true := by decide +kernel
theorem Gamma_identity_1_5 : checkIdentity 1 5 = true := by decide +kernel
theorem Gamma_identity_2_1 : checkIdentity 2 1 = true := by decide +kernel
theorem Gamma_identity_2_2 : checkIdentity 2 2 = true := by decide +kernel
theorem Gamma_identity_2_3 : checkIdentity 2 3 = true := by decide +kernel
theorem Gamma_identity_2_4 : checkIdentity 2 4 = true := by decide +kernel
theorem Gamma_identity_2_5 : checkIdentity 2 5 = true := by decide +kernel
theorem Gamma_identity_3_1 : checkIdentity 3 1 = true := by decide +kernel
theorem Gamma_identity_3_2 : checkIdentity 3 2 = true := by decide +kernel
theorem Gamma_identity_3_3 : checkIdentity 3 3 = true := by decide +kernel
theorem Gamma_identity_4_1 : checkIdentity 4 1 = true := by decide +kernel
theorem Gamma_identity_4_2 : checkIdentity 4 2 = true := by decide +kernel
theorem Gamma_identity_5_1 : checkIdentity 5 1 = true := by decide +kernel
theorem Gamma_identity_5_2 : checkIdentity 5 2 = true := by decide +kernel
theorem Gamma_identity_6_2 : checkIdentity 6 2 = true := by decide +kernel
theorem Gamma_identity_3_4 : checkIdentity 3 4 = true := by decide +kernel
theorem Gamma_identity_4_3 : checkIdentity 4 3 = true := by decide +kernel

/-- non-vacuity: the table entries are non-trivial (6 multi-indices for N=3, d=2) -/
example : (multiIndices 3 2).length = 6 := by decide
example : gamma [2, 0] [2, 0] ≠ 0 := by decide +kernel

end AV.C15
