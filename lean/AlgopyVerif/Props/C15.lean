import AlgopyVerif.Proofs.Interp
import AlgopyVerif.Proofs.GammaUnivariate
import AlgopyVerif.Proofs.GammaGeneral
/-!
# C15 — exact-interpolation coefficients reconstruct mixed partial derivatives

* `multi_indices_complete_nodup`: for all `N ≥ 1`, `d`: the multi-index list contains exactly
  the lists of length `N` with sum `d`, each once (every monomial of degree `d` exactly once).
* `Gamma_identity_N_d`: `Σ_j Γ[i,j]·ray_j^α = δ(i,α)` for all multi-indices `i, α` of degree
  `d`, **proved by kernel evaluation over `Rat`** (`decide +kernel`, no axioms) for every
  `(N, d)` of the table below (heavier entries `(4,4), (3,5), (5,3)` in `Props/C15Big.lean`,
  built in the thorough tier).
* `Gamma_identity_one_variable`: for **one variable the identity holds for every degree** `d ≥ 1` (no bound), by proof:
  `Γ = γ(d,d) = d^{-d}` (`Gamma_one_variable_value`) since the `d`-th forward difference of `x^d` is `d!`.
* `Gamma_identity_every_N_d`: **the identity for every `N ≥ 1` and every `d ≥ 1`, by proof** (no bound; the kernel-evaluated
  table entries stay as independent checks of the same statement).
  The property's own quantifier asks for exhaustive exploration up to a bound in exact rational arithmetic; the table
  delivers that with the kernel as the checker, the general theorem removes the bound.
  Not proved (partial): that the float implementation stays close to the exact `Γ` for large `d` (cancellation; the
  correspondence run compares it with the exact model for the table).
-/
open AV.Interp
namespace AV.C15

/-- every monomial of degree `d` in `N+1` variables appears, and only those -/
theorem multi_indices_complete (N d : Nat) (i : List Nat) :
    i ∈ multiIndices (N+1) d ↔ i.length = N+1 ∧ i.sum = d := mem_multiIndices_succ N d i

/-- … exactly once -/
theorem multi_indices_nodup (N d : Nat) : (multiIndices N d).Nodup := nodup_multiIndices N d

/-- **EVERY number of variables `N ≥ 1` and EVERY degree `d ≥ 1`** (no bound): the identity
`Σ_j Γ[i,j]·ray_j^α = δ(i,α)` holds on the model of `exact_interpolation.py` (`gamma`, `multiIndices`, rays = the multi-indices)
for all multi-indices `i, α` of degree `d`.  Proof (`Proofs/GammaGeneral.lean`): the lattice `{j : |j| = d}` interpolates every
monomial of degree `d` on the hyperplane `|z| = d` (`lattice_interpolation`: powers in the falling-factorial basis by Stirling
numbers, `C(z,j)·(j)_m = (z)_m·C(z−m, j−m)` and the Chu–Vandermonde identity with rational upper arguments, by induction over the
variables), which collapses `γ` to the mixed forward difference `Σ_{k≤i} (−1)^{|i−k|} C(i,k) k^α / i! = δ(i,α)`. -/
theorem Gamma_identity_every_N_d (N d : Nat) (hN : 0 < N) (hd : 0 < d) : checkIdentity N d = true := by
  obtain ⟨M, rfl⟩ := Nat.exists_eq_succ_of_ne_zero hN.ne'
  exact checkIdentity_all M d hd

/-- entry by entry: `Σ_j γ(i,j) · j^α = δ(i,α)` -/
theorem Gamma_identity_entry (N d : Nat) (hd : 0 < d) (i a : List Nat) (hi : i ∈ multiIndices (N + 1) d)
    (ha : a ∈ multiIndices (N + 1) d) :
    ((multiIndices (N + 1) d).map fun j => gamma i j * miPow j a).sum = if i = a then 1 else 0 :=
  gamma_sum N d hd i a hi ha

/-- **one variable, EVERY degree** (no bound): the identity `Σ_j Γ[i,j]·ray_j^α = δ(i,α)` holds on the model for `N = 1` and all
`d ≥ 1` — there `Γ = γ(d,d) = d^{-d}`, because the `d`-th forward difference of `x^d` is `d!` -/
theorem Gamma_identity_one_variable (d : Nat) (hd : 0 < d) : checkIdentity 1 d = true := checkIdentity_one d hd

/-- the value of the single entry of Γ for one variable -/
theorem Gamma_one_variable_value (d : Nat) (hd : 0 < d) : gamma [d] [d] = 1 / (d : ℚ) ^ d := gamma_single d hd

theorem Gamma_identity_1_1 : checkIdentity 1 1 = true := by decide +kernel
theorem Gamma_identity_1_2 : checkIdentity 1 2 = true := by decide +kernel
theorem Gamma_identity_1_3 : checkIdentity 1 3 = true := by decide +kernel
theorem Gamma_identity_1_4 : checkIdentity 1 4 = true := by decide +kernel
theorem Gamma_identity_1_5 : checkIdentity 1 5 = true := by decide +kernel
theorem Gamma_identity_2_1 : checkIdentity 2 1 = true := by decide +kernel
theorem Gamma_identity_2_2 : checkIdentity 2 2 = true := by decide +kernel
theorem Gamma_identity_2_3 : checkIdentity 2 3 = true := by decide +kernel
theorem Gamma_identity_2_4 : checkIdentity 2 4 = true := by decide +kernel
theorem Gamma_identity_2_5 : checkIdentity 2 5 = true := by decide +kernel
theorem Gamma_identity_3_1 : checkIdentity 3 1 = true := by decide +kernel
theorem Gamma_identity_3_2 : checkIdentity 3 2 = true := by decide +kernel
theorem Gamma_identity_3_3 : checkIdentity 3 3 = true := by decide +kernel
theorem Gamma_identity_4_1 : checkIdentity 4 1 = true := by decide +kernel
theorem Gamma_identity_4_2 : checkIdentity 4 2 = true := by decide +kernel
theorem Gamma_identity_5_1 : checkIdentity 5 1 = true := by decide +kernel
theorem Gamma_identity_5_2 : checkIdentity 5 2 = true := by decide +kernel
theorem Gamma_identity_6_2 : checkIdentity 6 2 = true := by decide +kernel
theorem Gamma_identity_3_4 : checkIdentity 3 4 = true := by decide +kernel
theorem Gamma_identity_4_3 : checkIdentity 4 3 = true := by decide +kernel

/-- non-vacuity: the table entries are non-trivial (6 multi-indices for N=3, d=2) -/
example : (multiIndices 3 2).length = 6 := by decide
example : gamma [2, 0] [2, 0] ≠ 0 := by decide +kernel

end AV.C15
