import AlgopyVerif.Proofs.Interp
import AlgopyVerif.Proofs.GammaUnivariate
import AlgopyVerif.Proofs.GammaGeneral
import Mathlib.Algebra.BigOperators.Ring.Finset
import Mathlib.Data.Rat.Cast.CharZero
import Mathlib.Algebra.BigOperators.Group.List.Basic
/-!
# C15 — exact-interpolation coefficients reconstruct mixed partial derivatives

* `multi_indices_complete_nodup`: for all `N ≥ 1`, `d`: the multi-index list contains exactly
  the lists of length `N` with sum `d`, each once (every monomial of degree `d` exactly once).
* `Gamma_identity_N_d`: `Σ_j Γ[i,j]·ray_j^α = δ(i,α)` for all multi-indices `i, α` of degree
  `d`, **proved by kernel evaluation over `Rat`** (`decide +kernel`, no axioms) for every
  `(N, d)` of the table below (heavier entries `(4,4), (3,5), (5,3)` in `Props/C15Big.lean`,
  built in the thorough tier).
* `Gamma_identity_one_variable`: for **one variable the identity holds for every degree** `d ≥ 1` (no bound), by proof:
  `Γ = γ(d,d) = d^{-d}` (`Gamma_one_variable_value`) since the `d`-th forward difference of `x^d` is `d!`.
* `Gamma_identity_every_N_d`: **the identity for every `N ≥ 1` and every `d ≥ 1`, by proof** (no bound; the kernel-evaluated
  table entries stay as independent checks of the same statement).
  The property's own quantifier asks for exhaustive exploration up to a bound in exact rational arithmetic; the table
  delivers that with the kernel as the checker, the general theorem removes the bound.
* `tensor_reconstruction`: hence `Σ_j Γ[i,j]·c_d(ray_j) = a_i` for every form `c_d(v) = Σ_α a_α v^α` of degree `d` (every `N`, `d`,
  every field of characteristic zero).
  Not proved (partial): that the float implementation stays close to the exact `Γ` for large `d` (cancellation; the
  correspondence run compares it with the exact model for the table).
-/
open AV.Interp
namespace AV.C15

/-- every monomial of degree `d` in `N+1` variables appears, and only those -/
theorem multi_indices_complete (N d : Nat) (i : List Nat) :
    i ∈ multiIndices (N+1) d ↔ i.length = N+1 ∧ i.sum = d := mem_multiIndices_succ N d i

/-- … exactly once -/
theorem multi_indices_nodup (N d : Nat) : (multiIndices N d).Nodup := nodup_multiIndices N d

/-- **EVERY number of variables `N ≥ 1` and EVERY degree `d ≥ 1`** (no bound): the identity
`Σ_j Γ[i,j]·ray_j^α = δ(i,α)` holds on the model of `exact_interpolation.py` (`gamma`, `multiIndices`, rays = the multi-indices)
for all multi-indices `i, α` of degree `d`.  Proof (`Proofs/GammaGeneral.lean`): the lattice `{j : |j| = d}` interpolates every
monomial of degree `d` on the hyperplane `|z| = d` (`lattice_interpolation`: powers in the falling-factorial basis by Stirling
numbers, `C(z,j)·(j)_m = (z)_m·C(z−m, j−m)` and the Chu–Vandermonde identity with rational upper arguments, by induction over the
variables), which collapses `γ` to the mixed forward difference `Σ_{k≤i} (−1)^{|i−k|} C(i,k) k^α / i! = δ(i,α)`. -/
theorem Gamma_identity_every_N_d (N d : Nat) (hN : 0 < N) (hd : 0 < d) : checkIdentity N d = true := by
  obtain ⟨M, rfl⟩ := Nat.exists_eq_succ_of_ne_zero hN.ne'
  exact checkIdentity_all M d hd

/-- entry by entry: `Σ_j γ(i,j) · j^α = δ(i,α)` -/
theorem Gamma_identity_entry (N d : Nat) (hd : 0 < d) (i a : List Nat) (hi : i ∈ multiIndices (N + 1) d)
    (ha : a ∈ multiIndices (N + 1) d) :
    ((multiIndices (N + 1) d).map fun j => gamma i j * miPow j a).sum = if i = a then 1 else 0 :=
  gamma_sum N d hd i a hi ha

/-- **one variable, EVERY degree** (no bound): the identity `Σ_j Γ[i,j]·ray_j^α = δ(i,α)` holds on the model for `N = 1` and all
`d ≥ 1` — there `Γ = γ(d,d) = d^{-d}`, because the `d`-th forward difference of `x^d` is `d!` -/
theorem Gamma_identity_one_variable (d : Nat) (hd : 0 < d) : checkIdentity 1 d = true := checkIdentity_one d hd

/-- the value of the single entry of Γ for one variable -/
theorem Gamma_one_variable_value (d : Nat) (hd : 0 < d) : gamma [d] [d] = 1 / (d : ℚ) ^ d := gamma_single d hd

/-- **the "hence" of the property**: whenever the `d`-th Taylor coefficient of a program along a direction `v` is a form of degree
`d` in `v`, `c_d(v) = Σ_{|α| = d} a_α v^α` (for a `C^d` function this is the multivariate Taylor formula with `a_α = ∂^α F(x)/α!`;
that formula itself is not restated here), the product of `Γ` with the coefficients along the rays returns every `a_i` — for every
`N ≥ 1`, every `d ≥ 1`, every coefficient family `a` in every field of characteristic zero.  This is what
`UTPM.extract_tensor ∘ program ∘ UTPM.init_tensor` computes. -/
theorem tensor_reconstruction (N d : Nat) (hd : 0 < d) {K : Type*} [Field K] [CharZero K] (a : List Nat → K) (i : List Nat)
    (hi : i ∈ multiIndices (N + 1) d) :
    ((multiIndices (N + 1) d).map fun j =>
        ((gamma i j : ℚ) : K) * ((multiIndices (N + 1) d).map fun α => a α * ((miPow j α : ℚ) : K)).sum).sum = a i := by
  have hnd := nodup_multiIndices (N + 1) d
  set J := multiIndices (N + 1) d with hJ
  have key : ∀ α ∈ J, (J.map fun j => ((gamma i j : ℚ) : K) * ((miPow j α : ℚ) : K)).sum = if i = α then 1 else 0 := by
    intro α hα
    have h := Gamma_identity_entry N d hd i α hi hα
    have h2 : (((J.map fun j => gamma i j * miPow j α).sum : ℚ) : K) = ((if i = α then (1:ℚ) else 0 : ℚ) : K) := by
      rw [hJ, h]
    rw [Rat.cast_list_sum, List.map_map] at h2
    simp only [Function.comp_def, Rat.cast_mul] at h2
    rw [h2]; split <;> simp
  rw [← List.sum_toFinset _ hnd]
  simp_rw [← List.sum_toFinset _ hnd, Finset.mul_sum]
  rw [Finset.sum_comm]
  have : ∀ α ∈ J.toFinset, (∑ j ∈ J.toFinset, ((gamma i j : ℚ) : K) * (a α * ((miPow j α : ℚ) : K))) = a α * (if i = α then 1 else 0) := by
    intro α hα
    rw [← key α (List.mem_toFinset.mp hα), ← List.sum_toFinset _ hnd, Finset.mul_sum]
    exact Finset.sum_congr rfl fun j _ => by ring
  rw [Finset.sum_congr rfl this]
  simp [Finset.sum_ite_eq, hi]

theorem Gamma_identity_1_1 : checkIdentity 1 1 = true := by decide +kernel
theorem Gamma_identity_1_2 : checkIdentity 1 2 = true := by decide +kernel
theorem Gamma_identity_1_3 : checkIdentity 1 3 = true := by decide +kernel
theorem Gamma_identity_1_4 : checkIdentity 1 4 = true := by decide +kernel
theorem Gamma_identity_1_5 : checkIdentity 1 5 = true := by decide +kernel
theorem Gamma_identity_2_1 : checkIdentity 2 1 = true := by decide +kernel
theorem Gamma_identity_2_2 : checkIdentity 2 2 = true := by decide +kernel
theorem Gamma_identity_2_3 : checkIdentity 2 3 = true := by decide +kernel
theorem Gamma_identity_2_4 : checkIdentity 2 4 = true := by decide +kernel
theorem Gamma_identity_2_5 : checkIdentity 2 5 = true := by decide +kernel
theorem Gamma_identity_3_1 : checkIdentity 3 1 = true := by decide +kernel
theorem Gamma_identity_3_2 : checkIdentity 3 2 = true := by decide +kernel
theorem Gamma_identity_3_3 : checkIdentity 3 3 = true := by decide +kernel
theorem Gamma_identity_4_1 : checkIdentity 4 1 = true := by decide +kernel
theorem Gamma_identity_4_2 : checkIdentity 4 2 = true := by decide +kernel
theorem Gamma_identity_5_1 : checkIdentity 5 1 = true := by decide +kernel
theorem Gamma_identity_5_2 : checkIdentity 5 2 = true := by decide +kernel
theorem Gamma_identity_6_2 : checkIdentity 6 2 = true := by decide +kernel
theorem Gamma_identity_3_4 : checkIdentity 3 4 = true := by decide +kernel
theorem Gamma_identity_4_3 : checkIdentity 4 3 = true := by decide +kernel

/-- non-vacuity: the table entries are non-trivial (6 multi-indices for N=3, d=2) -/
example : (multiIndices 3 2).length = 6 := by decide
example : gamma [2, 0] [2, 0] ≠ 0 := by decide +kernel
/-- non-vacuity of `tensor_reconstruction`: `[1, 1]` is a multi-index of (2, 2) (the mixed partial) -/
example : [1, 1] ∈ multiIndices (1 + 1) 2 := by decide

end AV.C15
