import AlgopyVerif.Proofs.Drivers
import AlgopyVerif.Proofs.DriversSeed
/-!
# C09 — forward-mode derivative drivers are exact

For a function with (symmetric) Hessian `H` at the seed point the second Taylor coefficient along
direction `v` is `c₂(v) = ½ vᵀ H v` (`quad H v`).  Extraction algebra, for **every** `N`:

* `hessian_diagonal`, `hessian_offdiagonal`: `2 c₂(e_n) = H_nn`,
  `c₂(e_n + e_m) − c₂(e_n) − c₂(e_m) = H_nm` — the formulas of `extract_hessian`;
* `hess_vec_entry`: `−c₂(e_n) + c₂(v + e_n) − c₂(v) = (H v)_n` — `extract_hess_vec`.

Seed tables (`init_hessian`'s triangular layout `a(n) = n(n+1)/2`, `k(n,m) = (n+1)(n+2)/2 − m − 1`;
`init_hess_vec`'s `2N+1` directions): `hessian_seed_table_all`, `hess_vec_seed_table_all` for **every** `N`
(and every `v`); the instances `N = 1 … 8` are also evaluated by the kernel.  `init_tensor /
extract_tensor` rest on the Γ identity of C15.

That `c₂` along `x + t v` of a *program* is `½ vᵀ∇²f v` is the composition of the per-operation Taylor
theorems (C01, C02, C07); it is checked on the implementation for polynomial programs against exact
analytic derivatives and for smooth programs against arbitrary-direction Taylor propagation.
-/
open AV
namespace AV.C09
variable {K : Type} [Field K] [CharZero K] {N : ℕ}

theorem hessian_diagonal (H : Fin N → Fin N → K) (n : Fin N) : 2 * quad H (Pi.single n 1) = H n n := quad_diag H n

theorem hessian_offdiagonal (H : Fin N → Fin N → K) (hH : ∀ i j, H i j = H j i) (n m : Fin N) :
    quad H (Pi.single n 1 + Pi.single m 1) - quad H (Pi.single n 1) - quad H (Pi.single m 1) = H n m :=
  quad_offdiag H hH n m

theorem hess_vec_entry (H : Fin N → Fin N → K) (hH : ∀ i j, H i j = H j i) (v : Fin N → K) (n : Fin N) :
    -quad H (Pi.single n 1) + quad H (v + Pi.single n 1) - quad H v = ∑ j, H n j * v j := quad_hess_vec H hH v n

/-- `init_hessian`'s direction table for every `N`: `N(N+1)/2` directions, `e_n` at `a(n)`, `e_n + e_m` at `k(n,m)` -/
theorem hessian_seed_table_all (N : ℕ) :
    (hessDirs (K := ℚ) N).length = N * (N + 1) / 2
    ∧ (∀ n, n < N → (hessDirs (K := ℚ) N).getD (hessA n) [] = unitVec N n)
    ∧ (∀ n m, n < N → m < n → (hessDirs (K := ℚ) N).getD (hessK n m) [] = addS (unitVec N n) (unitVec N m)) :=
  hessDirs_table N

/-- `init_hess_vec`'s direction table for every `N` and `v` -/
theorem hess_vec_seed_table_all (N : ℕ) (v : List ℚ) (hv : v.length = N) :
    (hessVecDirs N v).length = 2 * N + 1
    ∧ (hessVecDirs N v).getD (2 * N) [] = v
    ∧ (∀ n, n < N → (hessVecDirs N v).getD n [] = unitVec N n)
    ∧ (∀ n, n < N → (hessVecDirs N v).getD (n + N) [] = addS v (unitVec N n)) :=
  hessVecDirs_table N v hv

theorem hessian_seed_table_1 : hessTableOK 1 = true := by decide +kernel
theorem hessian_seed_table_2 : hessTableOK 2 = true := by decide +kernel
theorem hessian_seed_table_3 : hessTableOK 3 = true := by decide +kernel
theorem hessian_seed_table_4 : hessTableOK 4 = true := by decide +kernel
theorem hessian_seed_table_5 : hessTableOK 5 = true := by decide +kernel
theorem hessian_seed_table_6 : hessTableOK 6 = true := by decide +kernel
theorem hessian_seed_table_7 : hessTableOK 7 = true := by decide +kernel
theorem hessian_seed_table_8 : hessTableOK 8 = true := by decide +kernel
theorem hess_vec_seed_table_4 : hessVecTableOK 4 [1/2, -3, 2, 7] = true := by decide +kernel

/-- non-vacuity -/
example : hessDirs (K := ℚ) 2 = [[1, 0], [0, 1], [1, 1]] := by decide +kernel

end AV.C09
