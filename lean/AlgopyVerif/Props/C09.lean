import AlgopyVerif.Proofs.Drivers
import AlgopyVerif.Proofs.DriversSeed
import AlgopyVerif.Proofs.LineDeriv
import AlgopyVerif.Proofs.Jet
/-!
# C09 — forward-mode derivative drivers are exact

For a function with (symmetric) Hessian `H` at the seed point the second Taylor coefficient along
direction `v` is `c₂(v) = ½ vᵀ H v` (`quad H v`).  Extraction algebra, for **every** `N`:

* `hessian_diagonal`, `hessian_offdiagonal`: `2 c₂(e_n) = H_nn`,
  `c₂(e_n + e_m) − c₂(e_n) − c₂(e_m) = H_nm` — the formulas of `extract_hessian`;
* `hess_vec_entry`: `−c₂(e_n) + c₂(v + e_n) − c₂(v) = (H v)_n` — `extract_hess_vec`.

Seed tables (`init_hessian`'s triangular layout `a(n) = n(n+1)/2`, `k(n,m) = (n+1)(n+2)/2 − m − 1`;
`init_hess_vec`'s `2N+1` directions): `hessian_seed_table_all`, `hess_vec_seed_table_all` for **every** `N`
(and every `v`); the instances `N = 1 … 8` are also evaluated by the kernel.  `init_tensor /
extract_tensor` rest on the Γ identity of C15.

Program level (`program_*` below): for **every** `F : ℝᴺ → ℝ` that is `C²` at `x` (the composite function of
the program), the Taylor coefficients of `t ↦ F(x + t v)` are `c₁(v) = ∇F(x)·v` and `c₂(v) = ½ vᵀ∇²F(x) v` with
the symmetric Hessian `∂²F/∂x_n∂x_m` (`fderiv ℝ (fderiv ℝ F) x e_n e_m`), so the three extraction formulas return
the true Jacobian / Hessian entries and Hessian-vector products.  That the UTP evaluation of the program on
the seeded input computes the jet of `t ↦ F(x + t v)` is the `JetOf` closure of C01 (`utp_second_coefficient`
states the composition).  It is also checked on the implementation for polynomial programs against exact
analytic derivatives and for smooth programs against arbitrary-direction Taylor propagation.
-/
open AV
namespace AV.C09
variable {K : Type} [Field K] [CharZero K] {N : ℕ}

theorem hessian_diagonal (H : Fin N → Fin N → K) (n : Fin N) : 2 * quad H (Pi.single n 1) = H n n := quad_diag H n

theorem hessian_offdiagonal (H : Fin N → Fin N → K) (hH : ∀ i j, H i j = H j i) (n m : Fin N) :
    quad H (Pi.single n 1 + Pi.single m 1) - quad H (Pi.single n 1) - quad H (Pi.single m 1) = H n m :=
  quad_offdiag H hH n m

theorem hess_vec_entry (H : Fin N → Fin N → K) (hH : ∀ i j, H i j = H j i) (v : Fin N → K) (n : Fin N) :
    -quad H (Pi.single n 1) + quad H (v + Pi.single n 1) - quad H v = ∑ j, H n j * v j := quad_hess_vec H hH v n

/-! ## program level: the coefficients along `x + t v` are the gradient and Hessian forms -/
section program
variable {M : ℕ}

/-- second Taylor coefficient of the program's composite function along direction `v` -/
noncomputable def c2 (F : (Fin M → ℝ) → ℝ) (x v : Fin M → ℝ) : ℝ := tc (fun t => F (line x v t)) 2
noncomputable def c1 (F : (Fin M → ℝ) → ℝ) (x v : Fin M → ℝ) : ℝ := tc (fun t => F (line x v t)) 1

/-- `extract_jacobian`: first coefficient along `e_n` is `∂F/∂x_n` -/
theorem program_jacobian (F : (Fin M → ℝ) → ℝ) (x : Fin M → ℝ) (hF : DifferentiableAt ℝ F x) (n : Fin M) :
    c1 F x (Pi.single n 1) = gradAt F x n := tc_line_one F x _ hF

/-- `extract_jac_vec`: first coefficient along `v` is `∇F(x)·v` -/
theorem program_jac_vec (F : (Fin M → ℝ) → ℝ) (x v : Fin M → ℝ) (hF : DifferentiableAt ℝ F x) :
    c1 F x v = ∑ i, gradAt F x i * v i := by
  unfold c1; rw [tc_line_one F x v hF, fderiv_eq_grad]

/-- `c₂(v) = ½ vᵀ∇²F(x) v` -/
theorem program_c2 (F : (Fin M → ℝ) → ℝ) (x v : Fin M → ℝ) (hF : ContDiffAt ℝ 2 F x) :
    c2 F x v = quad (hessAt F x) v := tc_line_two_quad F x v hF

/-- `extract_hessian`, diagonal -/
theorem program_hessian_diag (F : (Fin M → ℝ) → ℝ) (x : Fin M → ℝ) (hF : ContDiffAt ℝ 2 F x) (n : Fin M) :
    2 * c2 F x (Pi.single n 1) = hessAt F x n n := by
  rw [program_c2 F x _ hF]; exact quad_diag _ n

/-- `extract_hessian`, off-diagonal -/
theorem program_hessian_offdiag (F : (Fin M → ℝ) → ℝ) (x : Fin M → ℝ) (hF : ContDiffAt ℝ 2 F x) (n m : Fin M) :
    c2 F x (Pi.single n 1 + Pi.single m 1) - c2 F x (Pi.single n 1) - c2 F x (Pi.single m 1) = hessAt F x n m := by
  rw [program_c2 F x _ hF, program_c2 F x _ hF, program_c2 F x _ hF]
  exact quad_offdiag _ (hessAt_symm F x hF) n m

/-- `extract_hess_vec` -/
theorem program_hess_vec (F : (Fin M → ℝ) → ℝ) (x v : Fin M → ℝ) (hF : ContDiffAt ℝ 2 F x) (n : Fin M) :
    -c2 F x (Pi.single n 1) + c2 F x (v + Pi.single n 1) - c2 F x v = ∑ j, hessAt F x n j * v j := by
  rw [program_c2 F x _ hF, program_c2 F x _ hF, program_c2 F x _ hF]
  exact quad_hess_vec _ (hessAt_symm F x hF) v n

/-- composition with C01: a UTP coefficient list that is the jet of `t ↦ F(x + t v)` (what the kernels
compute, by the `JetOf` closure) carries `½ vᵀ∇²F v` at order 2 and `∇F·v` at order 1 -/
theorem utp_second_coefficient (F : (Fin M → ℝ) → ℝ) (x v : Fin M → ℝ) (hF : ContDiffAt ℝ 2 F x)
    (l : List ℝ) (hl : 2 < l.length) (hj : JetOf l (fun t => F (line x v t))) :
    co l 2 = quad (hessAt F x) v ∧ co l 1 = ∑ i, gradAt F x i * v i := by
  refine ⟨?_, ?_⟩
  · rw [hj.coeff 2 hl]; exact tc_line_two_quad F x v hF
  · rw [hj.coeff 1 (by omega), tc_line_one F x v (hF.differentiableAt (by norm_num)), fderiv_eq_grad]

/-- non-vacuity of the hypothesis: a polynomial program is `C²` everywhere -/
example (x : Fin 2 → ℝ) : ContDiffAt ℝ 2 (fun y : Fin 2 → ℝ => y 0 * y 1 + y 0 ^ 3) x := by
  fun_prop
end program

/-- `init_hessian`'s direction table for every `N`: `N(N+1)/2` directions, `e_n` at `a(n)`, `e_n + e_m` at `k(n,m)` -/
theorem hessian_seed_table_all (N : ℕ) :
    (hessDirs (K := ℚ) N).length = N * (N + 1) / 2
    ∧ (∀ n, n < N → (hessDirs (K := ℚ) N).getD (hessA n) [] = unitVec N n)
    ∧ (∀ n m, n < N → m < n → (hessDirs (K := ℚ) N).getD (hessK n m) [] = addS (unitVec N n) (unitVec N m)) :=
  hessDirs_table N

/-- `init_hess_vec`'s direction table for every `N` and `v` -/
theorem hess_vec_seed_table_all (N : ℕ) (v : List ℚ) (hv : v.length = N) :
    (hessVecDirs N v).length = 2 * N + 1
    ∧ (hessVecDirs N v).getD (2 * N) [] = v
    ∧ (∀ n, n < N → (hessVecDirs N v).getD n [] = unitVec N n)
    ∧ (∀ n, n < N → (hessVecDirs N v).getD (n + N) [] = addS v (unitVec N n)) :=
  hessVecDirs_table N v hv

theorem hessian_seed_table_1 : hessTableOK 1 = true := by decide +kernel
theorem hessian_seed_table_2 : hessTableOK 2 = true := by decide +kernel
theorem hessian_seed_table_3 : hessTableOK 3 = true := by decide +kernel
theorem hessian_seed_table_4 : hessTableOK 4 = true := by decide +kernel
theorem hessian_seed_table_5 : hessTableOK 5 = true := by decide +kernel
theorem hessian_seed_table_6 : hessTableOK 6 = true := by decide +kernel
theorem hessian_seed_table_7 : hessTableOK 7 = true := by decide +kernel
theorem hessian_seed_table_8 : hessTableOK 8 = true := by decide +kernel
theorem hess_vec_seed_table_4 : hessVecTableOK 4 [1/2, -3, 2, 7] = true := by decide +kernel

/-- non-vacuity -/
example : hessDirs (K := ℚ) 2 = [[1, 0], [0, 1], [1, 1]] := by decide +kernel

end AV.C09
